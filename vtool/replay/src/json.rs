//! Minimal JSON value, writer and parser (serde_json is not in /repo's Cargo.lock, so no new dependency).

#[derive(Debug, Clone, PartialEq)]
pub enum Json {
    Null,
    Bool(bool),
    Num(f64),
    Str(String),
    Arr(Vec<Json>),
    Obj(Vec<(String, Json)>),
}

impl Json {
    pub fn str(s: impl Into<String>) -> Json {
        Json::Str(s.into())
    }
    pub fn get(&self, key: &str) -> Option<&Json> {
        match self {
            Json::Obj(kv) => kv.iter().find(|(k, _)| k == key).map(|(_, v)| v),
            _ => None,
        }
    }
    pub fn as_str(&self) -> Option<&str> {
        match self {
            Json::Str(s) => Some(s),
            _ => None,
        }
    }
    pub fn write(&self, out: &mut String) {
        match self {
            Json::Null => out.push_str("null"),
            Json::Bool(b) => out.push_str(if *b { "true" } else { "false" }),
            Json::Num(n) => {
                if n.fract() == 0.0 && n.abs() < 9.0e15 {
                    out.push_str(&format!("{}", *n as i64))
                } else {
                    out.push_str(&format!("{}", n))
                }
            }
            Json::Str(s) => write_str(s, out),
            Json::Arr(a) => {
                out.push('[');
                for (i, v) in a.iter().enumerate() {
                    if i > 0 {
                        out.push(',');
                    }
                    v.write(out);
                }
                out.push(']');
            }
            Json::Obj(kv) => {
                out.push('{');
                for (i, (k, v)) in kv.iter().enumerate() {
                    if i > 0 {
                        out.push(',');
                    }
                    write_str(k, out);
                    out.push(':');
                    v.write(out);
                }
                out.push('}');
            }
        }
    }
    pub fn to_text(&self) -> String {
        let mut s = String::new();
        self.write(&mut s);
        s
    }
}

fn write_str(s: &str, out: &mut String) {
    out.push('"');
    for c in s.chars() {
        match c {
            '"' => out.push_str("\\\""),
            '\\' => out.push_str("\\\\"),
            '\n' => out.push_str("\\n"),
            '\r' => out.push_str("\\r"),
            '\t' => out.push_str("\\t"),
            c if (c as u32) < 0x20 || c == '\u{7f}' => out.push_str(&format!("\\u{:04x}", c as u32)),
            c => out.push(c),
        }
    }
    out.push('"');
}

pub fn parse(text: &str) -> Result<Json, String> {
    let chars: Vec<char> = text.chars().collect();
    let mut p = Parser { c: &chars, i: 0 };
    p.ws();
    let v = p.value()?;
    p.ws();
    if p.i != chars.len() {
        return Err(format!("trailing characters at {}", p.i));
    }
    Ok(v)
}

struct Parser<'a> {
    c: &'a [char],
    i: usize,
}

impl Parser<'_> {
    fn ws(&mut self) {
        while self.i < self.c.len() && self.c[self.i].is_whitespace() {
            self.i += 1;
        }
    }
    fn peek(&self) -> Option<char> {
        self.c.get(self.i).copied()
    }
    fn eat(&mut self, lit: &str) -> bool {
        let l: Vec<char> = lit.chars().collect();
        if self.c.len() >= self.i + l.len() && self.c[self.i..self.i + l.len()] == l[..] {
            self.i += l.len();
            true
        } else {
            false
        }
    }
    fn value(&mut self) -> Result<Json, String> {
        match self.peek() {
            None => Err("unexpected end".into()),
            Some('{') => {
                self.i += 1;
                let mut kv = Vec::new();
                self.ws();
                if self.peek() == Some('}') {
                    self.i += 1;
                    return Ok(Json::Obj(kv));
                }
                loop {
                    self.ws();
                    let k = self.string()?;
                    self.ws();
                    if !self.eat(":") {
                        return Err(format!("expected ':' at {}", self.i));
                    }
                    self.ws();
                    let v = self.value()?;
                    kv.push((k, v));
                    self.ws();
                    if self.eat(",") {
                        continue;
                    }
                    if self.eat("}") {
                        return Ok(Json::Obj(kv));
                    }
                    return Err(format!("expected ',' or '}}' at {}", self.i));
                }
            }
            Some('[') => {
                self.i += 1;
                let mut a = Vec::new();
                self.ws();
                if self.peek() == Some(']') {
                    self.i += 1;
                    return Ok(Json::Arr(a));
                }
                loop {
                    self.ws();
                    a.push(self.value()?);
                    self.ws();
                    if self.eat(",") {
                        continue;
                    }
                    if self.eat("]") {
                        return Ok(Json::Arr(a));
                    }
                    return Err(format!("expected ',' or ']' at {}", self.i));
                }
            }
            Some('"') => Ok(Json::Str(self.string()?)),
            Some('t') if self.eat("true") => Ok(Json::Bool(true)),
            Some('f') if self.eat("false") => Ok(Json::Bool(false)),
            Some('n') if self.eat("null") => Ok(Json::Null),
            Some(_) => {
                let start = self.i;
                while self.i < self.c.len() && "+-0123456789.eE".contains(self.c[self.i]) {
                    self.i += 1;
                }
                let s: String = self.c[start..self.i].iter().collect();
                s.parse::<f64>().map(Json::Num).map_err(|_| format!("bad token at {start}"))
            }
        }
    }
    fn hex4(&mut self) -> Result<u32, String> {
        if self.i + 4 > self.c.len() {
            return Err("short \\u escape".into());
        }
        let s: String = self.c[self.i..self.i + 4].iter().collect();
        self.i += 4;
        u32::from_str_radix(&s, 16).map_err(|_| "bad \\u escape".to_string())
    }
    fn string(&mut self) -> Result<String, String> {
        if !self.eat("\"") {
            return Err(format!("expected string at {}", self.i));
        }
        let mut s = String::new();
        loop {
            let c = self.peek().ok_or("unterminated string")?;
            self.i += 1;
            match c {
                '"' => return Ok(s),
                '\\' => {
                    let e = self.peek().ok_or("unterminated escape")?;
                    self.i += 1;
                    match e {
                        'n' => s.push('\n'),
                        'r' => s.push('\r'),
                        't' => s.push('\t'),
                        'b' => s.push('\u{8}'),
                        'f' => s.push('\u{c}'),
                        '/' => s.push('/'),
                        '\\' => s.push('\\'),
                        '"' => s.push('"'),
                        'u' => {
                            let mut cp = self.hex4()?;
                            if (0xD800..0xDC00).contains(&cp) && self.eat("\\u") {
                                let lo = self.hex4()?;
                                cp = 0x10000 + ((cp - 0xD800) << 10) + (lo.wrapping_sub(0xDC00) & 0x3ff);
                            }
                            s.push(char::from_u32(cp).unwrap_or('\u{fffd}'));
                        }
                        other => return Err(format!("bad escape \\{other}")),
                    }
                }
                c => s.push(c),
            }
        }
    }
}
