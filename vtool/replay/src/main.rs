fn main() { println!("{}", wgsl_to_wgpu::create_shader_module_embedded("@fragment fn main() {}", Default::default()).unwrap()); }
