//! replay — witness search / replay for the wgsl_to_wgpu properties.
//!
//!   replay <PROP_ID> [--seed N] [--tier quick|thorough] [--out FILE]
//!   replay <PROP_ID> --case FILE.json        re-run one recorded failure
//!   replay list                              implemented property ids
//!   replay dump FILE.wgsl                    (debug aid) print the library output for a shader
//!
//! Exit code 0 when the run completed (failures are data, not errors), 3 on an internal error.

mod assumptions;
mod common;
mod gen;
mod json;
mod props;
mod sgen;

use common::*;
use json::Json;
use std::collections::HashSet;

fn internal(msg: impl AsRef<str>) -> ! {
    eprintln!("replay: internal error: {}", msg.as_ref());
    std::process::exit(3)
}

fn failure_json(f: &Failure) -> Json {
    Json::Obj(vec![
        ("case".into(), Json::str(&*f.case)),
        ("wgsl".into(), Json::str(&*f.wgsl)),
        ("options".into(), Json::str(&*f.options)),
        ("check".into(), Json::str(&*f.check)),
        ("expected".into(), Json::str(&*f.expected)),
        ("observed".into(), Json::str(&*f.observed)),
    ])
}

fn main() {
    let args: Vec<String> = std::env::args().skip(1).collect();
    if args.is_empty() {
        eprintln!("usage: replay <PROP_ID> [--seed N] [--tier quick|thorough] [--out FILE] | replay <PROP_ID> --case FILE.json");
        std::process::exit(3);
    }
    install_quiet_panic_hook();

    // hidden helper used by C18 (cross-process determinism): print the library output for a case file
    if args[0] == "__emit" {
        let text = std::fs::read_to_string(&args[1]).unwrap_or_else(|e| internal(format!("{e}")));
        let j = json::parse(&text).unwrap_or_else(|e| internal(e));
        let wgsl = j.get("wgsl").and_then(|v| v.as_str()).unwrap_or_else(|| internal("no wgsl"));
        let params = Params::parse(j.get("options").and_then(|v| v.as_str()).unwrap_or("")).unwrap_or_else(|e| internal(e));
        match run_lib(wgsl, &params) {
            LibResult::Ok(t) => print!("OK\n{t}"),
            other => print!("{}", other.short()),
        }
        return;
    }
    if args[0] == "list" {
        for p in props::all() {
            println!("{}", p.id());
        }
        return;
    }
    if args[0] == "dump" {
        let src = std::fs::read_to_string(&args[1]).unwrap_or_else(|e| internal(format!("{e}")));
        let mut params = Params::default();
        if args.iter().any(|a| a == "--validate") {
            params = params.validated(true);
        }
        if args.iter().any(|a| a == "--module") {
            println!("{:#?}", naga_parse(&src));
        }
        match run_lib(&src, &params) {
            LibResult::Ok(t) => println!("{t}"),
            other => println!("{}", other.short()),
        }
        return;
    }

    let id = args[0].to_uppercase();
    let mut seed: u64 = 1;
    let mut tier = Tier::Quick;
    let mut out: Option<String> = None;
    let mut case_file: Option<String> = None;
    let mut i = 1;
    while i < args.len() {
        let val = |i: usize| args.get(i + 1).cloned().unwrap_or_else(|| internal(format!("{} needs a value", args[i])));
        match args[i].as_str() {
            "--seed" => {
                seed = val(i).parse().unwrap_or_else(|_| internal("bad --seed"));
                i += 1
            }
            "--tier" => {
                tier = match val(i).as_str() {
                    "quick" => Tier::Quick,
                    "thorough" => Tier::Thorough,
                    _ => internal("bad --tier"),
                };
                i += 1
            }
            "--out" => {
                out = Some(val(i));
                i += 1
            }
            "--case" => {
                case_file = Some(val(i));
                i += 1
            }
            other => internal(format!("unknown argument {other}")),
        }
        i += 1;
    }

    let all = props::all();
    let prop = match all.iter().find(|p| p.id() == id) {
        Some(p) => p,
        None => internal(format!("property {id} is not implemented (implemented: {})", all.iter().map(|p| p.id()).collect::<Vec<_>>().join(" "))),
    };

    // ---- replay of one recorded case ----------------------------------------------------------
    if let Some(path) = case_file {
        let text = std::fs::read_to_string(&path).unwrap_or_else(|e| internal(format!("{path}: {e}")));
        let j = json::parse(&text).unwrap_or_else(|e| internal(format!("{path}: {e}")));
        // accept either one failure object or a whole report (first failure)
        let f = match j.get("failures") {
            Some(Json::Arr(a)) if !a.is_empty() => a[0].clone(),
            Some(_) => internal("report contains no failure"),
            None => j,
        };
        let s = |k: &str| f.get(k).and_then(|v| v.as_str()).unwrap_or_else(|| internal(format!("case lacks `{k}`"))).to_string();
        let params = Params::parse(&s("options")).unwrap_or_else(|e| internal(e));
        let case = Case::new(s("case"), s("wgsl"), params);
        let o = prop.check(&case);
        let res = Json::Obj(vec![
            ("property".into(), Json::str(id.clone())),
            ("case".into(), Json::str(case.name.clone())),
            ("still_fails".into(), Json::Bool(!o.failures.is_empty())),
            ("skipped".into(), o.skipped.clone().map(Json::Str).unwrap_or(Json::Null)),
            ("failures".into(), Json::Arr(o.failures.iter().take(10).map(failure_json).collect())),
        ]);
        emit(&res, out.as_deref());
        eprintln!("{}", if o.failures.is_empty() { "case passes" } else { "case STILL FAILS" });
        return;
    }

    // ---- search -------------------------------------------------------------------------------
    let cases = prop.cases(seed, tier);
    let mut failures: Vec<Failure> = vec![];
    let mut total_failures = 0usize;
    let mut distinct: HashSet<(String, String)> = HashSet::new();
    let mut skipped = 0usize;
    let mut skip_reasons: Vec<String> = vec![];
    for c in &cases {
        let o = prop.check(c);
        if let Some(why) = o.skipped {
            skipped += 1;
            if skip_reasons.len() < 5 {
                skip_reasons.push(format!("{}: {}", c.name, clip(&why).chars().take(300).collect::<String>()));
            }
        } else if !c.wgsl.trim().is_empty() {
            distinct.insert((c.wgsl.clone(), c.params.describe()));
        }
        total_failures += o.failures.len();
        for f in o.failures {
            // at most 10 recorded, and at most 2 per (case) so that one bad shader does not fill the list
            if failures.len() < 10 && failures.iter().filter(|g| g.case == f.case).count() < 2 {
                failures.push(f);
            }
        }
    }
    let samples: Vec<Json> = if cases.is_empty() {
        vec![]
    } else {
        [0, cases.len() / 2, cases.len() - 1]
            .iter()
            .map(|&i| {
                let c = &cases[i];
                let first = c.wgsl.lines().find(|l| !l.trim().is_empty()).unwrap_or("").trim();
                Json::str(format!("{} ({} lines; first: {})", c.name, c.wgsl.lines().count(), first.chars().take(80).collect::<String>()))
            })
            .collect()
    };
    let report = Json::Obj(vec![
        ("property".into(), Json::str(id)),
        ("seed".into(), Json::Num(seed as f64)),
        ("tier".into(), Json::str(if tier == Tier::Quick { "quick" } else { "thorough" })),
        ("cases".into(), Json::Num(cases.len() as f64)),
        ("distinct".into(), Json::Num(distinct.len() as f64)),
        ("skipped".into(), Json::Num(skipped as f64)),
        ("skip_reasons".into(), Json::Arr(skip_reasons.into_iter().map(Json::Str).collect())),
        ("rule".into(), Json::str(prop.rule())),
        ("failure_count".into(), Json::Num(total_failures as f64)),
        ("failures".into(), Json::Arr(failures.iter().map(failure_json).collect())),
        ("samples".into(), Json::Arr(samples)),
        ("assumptions".into(), {
            let g = assumptions::SEEN.lock().map(|g| (g.0, g.1.clone())).unwrap_or((0, vec!["lock poisoned".into()]));
            Json::Obj(vec![("modules_checked".into(), Json::Num(g.0 as f64)), ("violations".into(), Json::Arr(g.1.into_iter().map(Json::Str).collect()))])
        }),
    ]);
    emit(&report, out.as_deref());
}

/// Remove the scratch directories C18 / C19 create under the system temp dir.
fn cleanup_temp() {
    for prefix in ["replay-c18-", "replay-c19-"] {
        let _ = std::fs::remove_dir_all(std::env::temp_dir().join(format!("{prefix}{}", std::process::id())));
    }
}

fn emit(j: &Json, out: Option<&str>) {
    cleanup_temp();
    let mut text = j.to_text();
    text.push('\n');
    match out {
        Some(p) => std::fs::write(p, text).unwrap_or_else(|e| internal(format!("{p}: {e}"))),
        None => print!("{text}"),
    }
}
