#!/usr/bin/env python3
"""Run the Kani leaf harnesses on a scratch copy of /repo (the harness text of vtool/kani/harness.rs is appended to the
copied source files).  kani_run.py [harness ...] -> JSON on stdout."""
import json, os, re, shutil, subprocess, sys, tempfile, time
HERE = os.path.dirname(os.path.abspath(__file__))
ROOT = os.path.dirname(HERE)
# vertex_format_shape: the argument is wrapped in ManuallyDrop - the drop glue of naga::TypeInner (struct members, names) was
# what made CBMC run for more than 20 minutes; without it the harness takes well under a minute (126 checks).
HARNESSES = {'naga_stages_bits': 'C03', 'location_target_count_value': 'C14', 'vertex_format_shape': 'C07'}


def run(names=None, src_root='/repo'):
    names = names or list(HARNESSES)
    t0 = time.time()
    d = tempfile.mkdtemp(prefix='verif-kani-')
    out = {'harnesses': {}, 'wall_s': 0}
    try:
        shutil.copytree(os.path.join(src_root, 'wgsl_to_wgpu'), os.path.join(d, 'wgsl_to_wgpu'), ignore=shutil.ignore_patterns('target'))
        shutil.copy(os.path.join(src_root, 'Cargo.lock'), os.path.join(d, 'wgsl_to_wgpu', 'Cargo.lock'))
        cargo = os.path.join(d, 'wgsl_to_wgpu', 'Cargo.toml')
        open(cargo, 'a').write('\n[workspace]\n\n[lints.rust]\nunexpected_cfgs = { level = "allow", check-cfg = ["cfg(kani)"] }\n')
        text = open(os.path.join(HERE, 'kani', 'harness.rs')).read()
        for m in re.finditer(r'//@file (\S+)\n(.*?)(?=//@file |\Z)', text, flags=re.S):
            with open(os.path.join(d, 'wgsl_to_wgpu', 'src', m.group(1)), 'a') as f:
                f.write('\n' + m.group(2))
        env = dict(os.environ, CARGO_NET_OFFLINE='true', CARGO_TARGET_DIR=os.path.join(ROOT, 'build', 'kani-target'))
        for h in names:
          try:
            r = subprocess.run(['cargo', 'kani', '--harness', h], cwd=os.path.join(d, 'wgsl_to_wgpu'), env=env, stdout=subprocess.PIPE, stderr=subprocess.STDOUT, text=True, timeout=int(os.environ.get('VERIF_KANI_TIMEOUT', '300')))
            txt = r.stdout
            ok = 'VERIFICATION:- SUCCESSFUL' in txt
            failed = 'VERIFICATION:- FAILED' in txt
            checks = re.search(r'\*\* (\d+) of (\d+) failed', txt)
            fails = re.findall(r'Failed Checks: ([^\n]*)', txt)
            t = re.search(r'Verification Time: ([0-9.]+)s', txt)
            out['harnesses'][h] = {'property': HARNESSES.get(h), 'result': 'SUCCESSFUL' if ok else ('FAILED' if failed else 'ERROR'),
                                   'checks': int(checks.group(2)) if checks else None, 'failed_checks': fails[:5],
                                   'solver_s': float(t.group(1)) if t else None, 'tail': '' if ok else txt[-1500:]}
          except subprocess.TimeoutExpired:
            out['harnesses'][h] = {'property': HARNESSES.get(h), 'result': 'TIMEOUT'}
    finally:
        shutil.rmtree(d, ignore_errors=True)
    out['wall_s'] = round(time.time() - t0, 1)
    return out


if __name__ == '__main__':
    print(json.dumps(run(sys.argv[1:] or None), indent=1))
