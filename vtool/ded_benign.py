#!/usr/bin/env python3
"""Deductive part ALONE on behaviour-preserving patches (benign/<id>/patch.diff): a VIOLATION is a false alarm of the machinery.
Faster than run_benign.py (no witness search, no worktrees): each patch is applied to a scratch copy of the sources and every
property whose units extract or stub a function of the touched file is checked with `check.py --src`.
Usage: ded_benign.py [--jobs N] [ids or prefixes...]   writes benign/DEDUCTIVE.json"""
import concurrent.futures as cf, glob, json, os, re, shutil, subprocess, sys, tempfile, collections
ROOT = os.path.dirname(os.path.dirname(os.path.abspath(__file__)))
args = sys.argv[1:]
jobs = 6
if '--jobs' in args:
    k = args.index('--jobs'); jobs = int(args[k + 1]); del args[k:k + 2]
allids = sorted(os.path.basename(p) for p in glob.glob(os.path.join(ROOT, 'benign', '*-*')) if os.path.isdir(p))
ids = [i for i in allids if not args or any(i == a or i.startswith(a) for a in args)]
file_props = {}
for u in glob.glob(os.path.join(ROOT, 'spec', 'units', '*.rs')):
    t = open(u, encoding='utf-8').read()
    m = re.search(r'^//@props (.*)$', t, re.M)
    props = m.group(1).split() if m else []
    for f in set(re.findall(r'^//@(?:fn|stub|item|type)\s+(\w+\.rs)::', t, re.M)):
        file_props.setdefault(f, set()).update(props)

def one(job):
    pid, prop = job
    d = tempfile.mkdtemp(prefix='verif-dedb-')
    try:
        os.makedirs(os.path.join(d, 'wgsl_to_wgpu'))
        shutil.copytree('/repo/wgsl_to_wgpu/src', os.path.join(d, 'wgsl_to_wgpu', 'src'))
        p = subprocess.run(['patch', '-s', '-p1', '-i', os.path.join(ROOT, 'benign', pid, 'patch.diff')], cwd=d, capture_output=True, text=True)
        if p.returncode != 0:
            return pid, prop, 'patch-failed', ''
        tag = 'dedb-%s' % pid
        r = subprocess.run([sys.executable, os.path.join(ROOT, 'vtool', 'check.py'), prop, '--src', os.path.join(d, 'wgsl_to_wgpu', 'src'), '--tag', tag], cwd=ROOT, capture_output=True, text=True)
        last = [l for l in r.stdout.strip().split('\n') if l.startswith('{')]
        info = json.loads(last[-1]) if last else {}
        st = {0: 'held', 1: 'FALSE-ALARM', 2: 'undecided'}.get(r.returncode, 'exit %d' % r.returncode)
        det = ', '.join(v['label'] for v in info.get('violations', [])) if r.returncode == 1 else '; '.join('%s: %s' % (u['reason'], (u.get('detail') or '')[:80]) for u in info.get('undecided', [])[:2])
        shutil.rmtree(os.path.join(ROOT, 'build', 'gen', '%s-%s' % (prop, tag)), ignore_errors=True)
        return pid, prop, st, det
    finally:
        shutil.rmtree(d, ignore_errors=True)

jobs_list = []
for pid in ids:
    files = sorted(set(os.path.basename(x) for x in re.findall(r'^\+\+\+ b/(\S+)', open(os.path.join(ROOT, 'benign', pid, 'patch.diff')).read(), re.M)))
    props = sorted(set().union(*[file_props.get(f, set()) for f in files])) if files else []
    jobs_list += [(pid, p) for p in props]
out_path = os.path.join(ROOT, 'benign', 'DEDUCTIVE.json')
res = json.load(open(out_path)) if os.path.exists(out_path) else {}
cnt = collections.Counter()
with cf.ThreadPoolExecutor(max_workers=jobs) as ex:
    for pid, prop, st, det in ex.map(one, jobs_list):
        res.setdefault(pid, {})[prop] = {'status': st, 'detail': det}
        cnt[st] += 1
        if st != 'held':
            print(pid, prop, st, det[:160], flush=True)
json.dump(res, open(out_path, 'w'), indent=1)
print('summary:', dict(cnt))
