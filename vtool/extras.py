"""Per-property extras run by check.py next to the Verus units:
  * C18: a syntactic purity scan of /repo's non-test sources (no global state, clocks, environment, randomness,
    hash-order dependence) - labelled `scan`, not a proof;
  * every property: the witness search (vtool/replay) - it runs the REAL crate on a corpus with independent oracles.
    It is used (a) to attach a concrete failing input to a failed obligation, and (b) as the labelled, bounded stand-in
    that decides when the deductive part is UNDECIDED after a rewrite (lost anchor / unsupported construct / rlimit).
    On its own it never overrides a discharged proof and it is never counted under `obligations`.
"""
import json
import os
import re
import subprocess
import sys
import time

HERE = os.path.dirname(os.path.abspath(__file__))
ROOT = os.path.dirname(HERE)
sys.path.insert(0, HERE)
from rslex import lex, match_close, test_module_start  # noqa: E402

REPO = os.environ.get('VERIF_REPO', '/repo')
SRC = os.environ.get('VERIF_REPO_SRC', os.path.join(REPO, 'wgsl_to_wgpu', 'src'))
# the three overrides below are used only by the parallel seeds driver (a private copy of the tool per worker)
REPLAY_DIR = os.environ.get('VERIF_REPLAY_DIR', os.path.join(HERE, 'replay'))
REPLAY_TARGET = os.environ.get('VERIF_REPLAY_TARGET', os.path.join(ROOT, 'build', 'replay-target'))
OUT = os.environ.get('VERIF_OUT', ROOT)


def c18_scan():
    """Tokens that would let state, time, environment or hash order into the output."""
    findings = []
    files = sorted(f for f in os.listdir(SRC) if f.endswith('.rs'))
    checked = 0
    for f in files:
        src = open(os.path.join(SRC, f), encoding='utf-8').read()
        ts = lex(src)
        limit = test_module_start(src, ts)
        ts = [t for t in ts if t[2] < limit]
        # generated-code templates (arguments of quote!) are text, not code of the generator: skip them
        keep = []
        k = 0
        while k < len(ts):
            if ts[k][1] == 'quote' and k + 2 < len(ts) and ts[k + 1][1] == '!' and ts[k + 2][1] in '([{':
                k = match_close(ts, k + 2) + 1
                continue
            keep.append(ts[k])
            k += 1
        ts = keep
        checked += len(ts)

        def line(t):
            return src.count('\n', 0, t[2]) + 1

        # function spans, to allow Command only inside pretty_print_rustfmt
        fn_at = {}
        k = 0
        while k < len(ts):
            if ts[k][1] == 'fn' and k + 1 < len(ts) and ts[k + 1][0] == 'ident':
                j = k + 2
                while j < len(ts) and ts[j][1] not in ('{', ';'):
                    if ts[j][1] in '([':
                        j = match_close(ts, j)
                    j += 1
                if j < len(ts) and ts[j][1] == '{':
                    e = match_close(ts, j)
                    for q in range(j, e + 1):
                        fn_at.setdefault(q, ts[k + 1][1])
            k += 1
        hash_vars = set()
        for k, t in enumerate(ts):
            x = t[1]
            nxt = ts[k + 1][1] if k + 1 < len(ts) else ''
            prev = ts[k - 1][1] if k else ''
            if x == 'static' and nxt == 'mut':
                findings.append((f, line(t), 'static mut'))
            elif x == 'thread_local' and nxt == '!':
                findings.append((f, line(t), 'thread_local!'))
            elif x == 'unsafe':
                findings.append((f, line(t), 'unsafe'))
            elif x in ('RefCell', 'Cell', 'Mutex', 'RwLock', 'OnceCell', 'OnceLock', 'LazyLock', 'lazy_static') or re.match(r'Atomic[A-Z]', x):
                findings.append((f, line(t), 'interior mutability / global cell: ' + x))
            elif x in ('env', 'time', 'fs', 'net') and prev == ':' and k >= 3 and ts[k - 3][1] == 'std':
                findings.append((f, line(t), 'std::' + x))
            elif x in ('SystemTime', 'Instant', 'RandomState', 'rand', 'thread_rng', 'getrandom'):
                findings.append((f, line(t), x))
            elif x == 'Command' and fn_at.get(k) != 'pretty_print_rustfmt' and prev != ',' and not (prev == '{' or nxt == ','):
                findings.append((f, line(t), 'process::Command outside pretty_print_rustfmt'))
        # HashSet / HashMap ITERATION: `.iter()`, `.keys()`, `.values()`, `for x in map`, `.into_iter()`, `.drain()`, .. on a variable whose
        # declaration mentions HashSet or HashMap.  Membership tests and keyed lookups (insert / contains / get / entry) are deterministic.
        for m in re.finditer(r'\b(?:let\s+mut\s+|let\s+)?(\w+)\s*(?::\s*&?(?:mut\s+)?)?(?:[\w:]*::)?Hash(?:Set|Map)\b', src[:limit]):
            hash_vars.add(m.group(1))
        for m in re.finditer(r'\b(\w+)\s*:\s*&(?:mut\s+)?(?:[\w:]*::)?Hash(?:Set|Map)\b', src[:limit]):
            hash_vars.add(m.group(1))
        for m in re.finditer(r'let\s+(?:mut\s+)?(\w+)\s*=\s*(?:[\w:]*::)?Hash(?:Set|Map)::', src[:limit]):
            hash_vars.add(m.group(1))
        hash_vars -= {'let', 'mut', 'use', 'collections', 'std'}
        for v in hash_vars:
            for m in re.finditer(r'(?<![.\w])%s\s*\.\s*(iter|into_iter|drain|iter_mut|retain|extend_from|keys|values|values_mut|into_keys|into_values)\b|\bin\s+&?(?:mut\s+)?%s\b(?!\s*\.)' % (re.escape(v), re.escape(v)), src[:limit]):
                findings.append((f, src.count('\n', 0, m.start()) + 1, 'hash collection `%s` is iterated (HashMap / HashSet iteration order depends on a per-process random seed and would leak into the output)' % v))
    return findings, checked, files


def c20_recursion_scan():
    """C20: which functions of the generator are recursive (directly or mutually)?  The step bound (unit cost) and the termination
    measures cover update_stages_blocks / update_stages / add_types_recursive, rust_type recurses on strictly smaller type handles
    (its decreases clause, unit wgsl_types); everything else is claimed to be plain loops over arenas.  This scan makes that claim
    checkable: a call graph over the non-test sources (identifier followed by `(`, resolved by name), recursive = on a cycle."""
    fns = {}
    for f in sorted(x for x in os.listdir(SRC) if x.endswith('.rs')):
        src = open(os.path.join(SRC, f), encoding='utf-8').read()
        ts = lex(src)
        limit = test_module_start(src, ts)
        ts = [t for t in ts if t[2] < limit]
        k = 0
        while k < len(ts):
            if ts[k][1] == 'fn' and k + 1 < len(ts) and ts[k + 1][0] == 'ident':
                j = k + 2
                while j < len(ts) and ts[j][1] not in ('{', ';'):
                    if ts[j][1] in '([':
                        j = match_close(ts, j)
                    j += 1
                if j < len(ts) and ts[j][1] == '{':
                    e = match_close(ts, j)
                    body = ts[j:e + 1]
                    # templates of generated code are text
                    calls = set()
                    q = 0
                    while q < len(body):
                        if body[q][1] == 'quote' and q + 2 < len(body) and body[q + 1][1] == '!' and body[q + 2][1] in '([{':
                            q = match_close(body, q + 2) + 1
                            continue
                        if body[q][0] == 'ident' and q + 1 < len(body) and body[q + 1][1] == '(' and not (q and body[q - 1][1] in ('.', 'fn')):
                            calls.add(body[q][1])
                        q += 1
                    fns.setdefault(ts[k + 1][1], set()).update(calls)
                    k = j + 1
                    continue
            k += 1
    graph = {f: set(c for c in cs if c in fns) for f, cs in fns.items()}
    rec = set()
    for f in graph:
        seen, stack = set(), list(graph[f])
        while stack:
            g = stack.pop()
            if g == f:
                rec.add(f)
                break
            if g not in seen:
                seen.add(g)
                stack.extend(graph[g])
    return sorted(rec), len(graph)


def replay_available():
    return os.path.exists(os.path.join(REPLAY_DIR, 'Cargo.toml')) and os.path.exists(os.path.join(REPLAY_DIR, 'src', 'main.rs'))


def replay_props():
    p = os.path.join(REPLAY_DIR, 'PROPS.txt')
    if os.path.exists(p):
        return set(open(p).read().split())
    return set()


def run_replay(prop, tier, seed):
    """Build (against /repo's working tree) and run the witness search for one property."""
    t0 = time.time()
    env = dict(os.environ, CARGO_TARGET_DIR=REPLAY_TARGET, CARGO_NET_OFFLINE='true')
    try:
        subprocess.run(['cp', os.path.join(REPO, 'Cargo.lock'), os.path.join(REPLAY_DIR, 'Cargo.lock')], check=False)
        b = subprocess.run(['cargo', 'build', '--offline', '-q'], cwd=REPLAY_DIR, env=env, stdout=subprocess.PIPE, stderr=subprocess.PIPE, text=True, timeout=600)
        if b.returncode != 0:
            return {'status': 'build-failed', 'detail': b.stderr[-1500:], 'wall_s': round(time.time() - t0, 1)}
        exe = os.path.join(REPLAY_TARGET, 'debug', 'replay')
        os.makedirs(os.path.join(OUT, 'build'), exist_ok=True)
        out = os.path.join(OUT, 'build', 'replay-%s.json' % prop)
        r = subprocess.run([exe, prop, '--seed', str(seed), '--tier', tier, '--out', out], cwd=REPLAY_DIR, env=env,
                           stdout=subprocess.PIPE, stderr=subprocess.PIPE, text=True, timeout=900 if tier == 'thorough' else 240)
        if r.returncode != 0 or not os.path.exists(out):
            return {'status': 'run-failed', 'detail': (r.stderr or r.stdout)[-1500:], 'wall_s': round(time.time() - t0, 1)}
        d = json.load(open(out))
        d['status'] = 'ok'
        d['wall_s'] = round(time.time() - t0, 1)
        return d
    except subprocess.TimeoutExpired:
        return {'status': 'timeout', 'wall_s': round(time.time() - t0, 1)}


def run(prop, tier, seed, unit_results):
    res = {'violations': [], 'known_hits': [], 'undecided': [], 'obligations': 0, 'discharged': 0, 'samples': [],
           'trusted_base': [], 'report': {}, 'back_end': ''}
    if prop == 'C18':
        findings, checked, files = c18_scan()
        res['report']['purity_scan'] = {'files': files, 'tokens_scanned': checked, 'findings': [list(x) for x in findings],
                                        'level': 'syntactic scan (bounded stand-in, not a proof): no static/thread_local/unsafe/interior mutability/env/time/fs/net/rand; HashMap / HashSet never iterated (membership and keyed lookup only), Command only in pretty_print_rustfmt'}
        for f, ln, what in findings[:5]:
            res['violations'].append({'unit': 'purity-scan', 'label': 'C18.scan-' + re.sub(r'[^A-Za-z0-9]+', '-', what)[:40].strip('-'),
                                      'failure': {'message': 'purity scan: %s at %s:%d' % (what, f, ln), 'blocks': [], 'labels': [], 'where': ['%s:%d' % (f, ln)], 'props': ['C18']},
                                      'witness': {'kind': 'source location', 'file': f, 'line': ln, 'what': what}})
    if prop == 'C20':
        try:
            rec, nf = c20_recursion_scan()
            covered = {'update_stages_blocks', 'update_stages', 'add_types_recursive', 'rust_type', 'token_text'}
            # recursion that is structural on an input tree and visits each node once, stated (not proved: the bodies are outside Verus)
            structural = {}  # token_text (recursion on the nesting of token groups) is under a termination contract since unit `canon`
            res['report']['recursion_scan'] = {'functions': nf, 'recursive': rec, 'under_cost_or_termination_contract': sorted(covered), 'structural_recursion_trusted': structural,
                                               'level': 'syntactic call graph of the non-test sources (bounded stand-in, not a proof): recursion occurs only in the functions whose cost / termination is under contract'}
            extra_rec = [f for f in rec if f not in covered and f not in structural]
            if extra_rec:
                # new recursion that no contract bounds: the step bound says nothing about it (never an alarm by itself)
                res['undecided'].append({'reason': 'recursion-outside-contract', 'unit': 'recursion-scan', 'detail': 'recursive function(s) without a cost contract: ' + ', '.join(extra_rec)})
        except Exception as e:
            res['report']['recursion_scan'] = {'error': str(e)[:200]}
    # Kani leaf harnesses (thorough tier): loop-free, full-domain => complete proofs; a failure carries a concrete counterexample
    if tier == 'thorough' and prop in ('C03', 'C14', 'C07') and os.environ.get('VERIF_KANI') != '0':
        try:
            import kani_run
            names = [h for h, p_ in kani_run.HARNESSES.items() if p_ == prop]
            kr = kani_run.run(names, src_root=REPO)
            res['report']['kani'] = kr
            res['back_end'] += ' + kani 0.68 / cbmc 6.11 (leaf harnesses)'
            for h, info in kr['harnesses'].items():
                if info['result'] == 'SUCCESSFUL':
                    res['obligations'] += info.get('checks') or 1
                    res['discharged'] += info.get('checks') or 1
                    res['samples'].append({'unit': 'kani', 'obligation': h, 'clause': 'cargo kani --harness %s: %s checks, full symbolic domain, no loops' % (h, info.get('checks')), 'function': h})
                elif info['result'] == 'FAILED':
                    res['violations'].append({'unit': 'kani', 'label': '%s.kani-%s' % (prop, h),
                                              'failure': {'message': 'Kani harness %s FAILED: %s' % (h, '; '.join(info.get('failed_checks') or [])), 'blocks': [], 'labels': [], 'where': [h], 'props': [prop]},
                                              'witness': {'kind': 'kani counterexample (failed check)', 'harness': h, 'failed_checks': info.get('failed_checks'), 'replay_cmd': 'python3 vtool/kani_run.py ' + h}})
                else:
                    res['report'].setdefault('kani_notes', []).append('%s: %s (not deciding)' % (h, info['result']))
        except Exception as e:  # a tool problem is never an alarm
            res['report']['kani'] = {'error': str(e)[:300]}
    # witness search: always run (quick: the fixed seed 1, thorough: the given seed as well, more cases)
    undec = any(u['undecided'] for u in unit_results)
    try:
        known_open = set(k['label'] for k in json.load(open(os.path.join(ROOT, 'known_findings.json')))['findings'] if k.get('status') == 'open')
    except Exception:
        known_open = set()
    failed = any(f for u in unit_results for f in u['failures'] if prop in f['props'] and not (f['labels'] and set(f['labels']) <= known_open))
    want = replay_available() and prop in replay_props() and os.environ.get('VERIF_REPLAY') != '0'
    if tier == 'quick':
        seed = 1
    # properties whose statement includes another property's observable (C02: "visible to that stage" is C03's visibility; C06: "nested structs refer to the emitted struct of the same name" needs C08's emission)
    also = {'C02': ['C03'], 'C06': ['C08']}.get(prop, [])
    if want:
        rr = run_replay(prop, tier, seed)
        for other in also:
            r2 = run_replay(other, tier, seed)
            if r2.get('status') == 'ok':
                rr['cases'] = (rr.get('cases') or 0) + (r2.get('cases') or 0)
                rr['distinct'] = (rr.get('distinct') or 0) + (r2.get('distinct') or 0)
                rr['rule'] = (rr.get('rule') or '') + ' || also the %s search: ' % other + (r2.get('rule') or '')
                rr['failures'] = (rr.get('failures') or []) + (r2.get('failures') or [])
        rep = {k: rr.get(k) for k in ('status', 'cases', 'distinct', 'rule', 'wall_s', 'samples', 'detail')}
        # assumption conformance: the naga invariants the contracts take as preconditions, evaluated on every module the oracles parsed
        ac = rr.get('assumptions') or {}
        res['report']['assumption_conformance'] = {
            'level': 'executable test (not a proof) of the naga invariants used as preconditions (wf, wf_entries, types_wf, arrays_wf, module_wf, globals_wf, consts_wf, arena order = handle order, UniqueArena uniqueness, bound members of input structs, push constant size % 4) on every module parsed during the witness search',
            'modules_checked': ac.get('modules_checked', 0), 'violations': ac.get('violations', [])}
        if ac.get('violations'):
            # a proved contract says nothing about an input that violates its precondition: never an alarm, never HELD
            res['undecided'].append({'reason': 'assumption-nonconformance', 'unit': 'witness-search', 'detail': '; '.join(ac['violations'][:3])})
        rep['level'] = 'bounded witness search on the real crate (labelled bounded; never counted as proved)'
        rep['failures'] = rr.get('failures', [])[:3]
        res['report']['witness_search'] = rep
        if rr.get('status') == 'ok' and rr.get('failures'):
            w = rr['failures'][0]
            res['witness'] = {'kind': 'failing input found by running the real crate', 'case': w.get('case'), 'check': w.get('check'),
                              'expected': w.get('expected'), 'observed': w.get('observed'), 'options': w.get('options'), 'wgsl': w.get('wgsl'),
                              'replay_cmd': 'build/replay-target/debug/replay %s --case <this file>' % prop}
            if not failed:
                # the deductive part could not name a failed obligation (undecided, or the breakage is outside the functions
                # under contract): the concrete failing input decides
                res['violations'].append({'unit': 'witness-search', 'label': '%s.witness-%s' % (prop, re.sub(r'[^A-Za-z0-9]+', '-', str(w.get('check') or w.get('case')))[:40].strip('-')),
                                          'failure': {'message': 'the real crate violates the property on a concrete input', 'blocks': [], 'labels': [], 'where': [str(w.get('case'))], 'props': [prop]},
                                          'witness': res['witness']})
    return res
