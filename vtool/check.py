#!/usr/bin/env python3
"""Per-property driver.

  check.py <Cnn> [--tier quick|thorough]      exit 0 held / 1 VIOLATION / 2 UNDECIDED
  check.py <Cnn> --replay <replay.json>       re-run the obligation and the witness recorded in a replay file

Steps: (1) extract the annotated real functions of every unit serving the property from /repo's working
tree; (2) Verus on each generated unit; (3) vacuity probes; (4) assumption scan; (5) Kani leaf harnesses
and the witness search (replay on the real crate) where the unit declares them; (6) classify, report,
write /verif/evidence/<Cnn>.json.
"""
import concurrent.futures as cf
import glob
import hashlib
import json
import os
import re
import subprocess
import sys
import time

HERE = os.path.dirname(os.path.abspath(__file__))
ROOT = os.path.dirname(HERE)
sys.path.insert(0, HERE)
import extract  # noqa: E402
from rslex import lex, match_close  # noqa: E402

# VERIF_OUT redirects everything a run writes (used only by the parallel seeds driver; registered commands never set it)
OUT = os.environ.get('VERIF_OUT', ROOT)
GEN = os.path.join(OUT, 'build', 'gen')
EVID = os.path.join(OUT, 'evidence')
REPLAY = os.path.join(EVID, 'replay')
LABEL = re.compile(r'\[(C\d{2,3})\.([A-Za-z0-9_\-]+)\]')

VERIF_FAIL = ('postcondition not satisfied', 'precondition not satisfied', 'assertion failed', 'invariant not satisfied',
              'decreases not satisfied', 'possible arithmetic', 'possible division by zero', 'possible bit shift',
              'termination', 'unreachable', 'failed to prove', 'could not prove', 'might fail', 'cannot show',
              'loop invariant', 'assertion not satisfied', 'not satisfied', 'unable to prove')


def sh(cmd, **kw):
    return subprocess.run(cmd, stdout=subprocess.PIPE, stderr=subprocess.PIPE, text=True, **kw)


def externs():
    p = os.path.join(ROOT, 'build', 'externs.json')
    if not os.path.exists(p):
        r = sh([os.path.join(HERE, 'setup_deps.sh')])
        if r.returncode != 0:
            raise RuntimeError('setup_deps failed: ' + r.stderr[-2000:])
    return json.load(open(p))


def verus_cmd(path, extra=(), multiple=10):
    ext = externs()
    deps = os.path.dirname(ext['naga'])
    cmd = ['verus', path, '-L', 'dependency=' + deps]
    for k in ('naga', 'indexmap', 'rustc_hash', 'proc_macro2', 'syn', 'wgpu_types', 'case', 'prettyplease'):
        cmd += ['--extern', '%s=%s' % (k, ext[k])]
    cmd += ['--triggers-mode', 'silent', '--output-json', '--time-expanded', '--multiple-errors', str(multiple)]
    cmd += list(extra) + ['--', '--error-format=json']
    return cmd


def units_for(prop):
    out = []
    for p in sorted(glob.glob(os.path.join(ROOT, 'spec', 'units', '*.rs'))):
        head = open(p, encoding='utf-8').read(4000)
        m = re.search(r'^//@props (.*)$', head, re.M)
        if m and prop in m.group(1).split():
            out.append(p)
    return out


def parse_verus(stdout, stderr):
    res = {'json': None, 'diags': [], 'raw_err': ''}
    try:
        res['json'] = json.loads(stdout)
    except Exception:
        res['raw_err'] = stdout[-1500:]
    for ln in stderr.splitlines():
        ln = ln.strip()
        if not ln.startswith('{'):
            if ln:
                res['raw_err'] += ln[:300] + '\n'
            continue
        try:
            d = json.loads(ln)
        except Exception:
            continue
        if d.get('level') not in ('error',):
            continue
        if d.get('message', '').startswith('aborting due to'):
            continue
        spans = []
        for s in d.get('spans', []):
            spans.append({'line': s['line_start'], 'line_end': s['line_end'], 'label': s.get('label'), 'primary': s['is_primary'],
                          'file': s['file_name']})
            e = s.get('expansion')
            while e:  # a failure inside a macro stand-in (quote!/panic!/format!): report the call site in the unit as well
                cs = e.get('span') or {}
                if cs:
                    spans.append({'line': cs['line_start'], 'line_end': cs['line_end'], 'label': 'in expansion of ' + str(e.get('macro_decl_name')),
                                  'primary': False, 'file': cs['file_name']})
                e = cs.get('expansion')
        for ch in d.get('children', []):
            for s in ch.get('spans', []):
                spans.append({'line': s['line_start'], 'line_end': s['line_end'], 'label': ch.get('message'), 'primary': False,
                              'file': s['file_name']})
        res['diags'].append({'message': d.get('message', ''), 'code': (d.get('code') or {}).get('code'), 'spans': spans,
                             'rendered': (d.get('rendered') or '')[:1500]})
    return res


def is_verification_failure(d):
    if d['code']:
        return False  # rustc error codes: front end
    m = d['message'].lower()
    return any(k in m for k in VERIF_FAIL)


def is_rlimit(d):
    m = d['message'].lower()
    return 'rlimit' in m or 'resource limit' in m or 'timeout' in m


def make_probe(rep):
    """Copy of the generated file with `assert(false)` at the start of every extracted fn body and of every
    loop body inside it.  Returns (text, [probe line numbers])."""
    lines = list(rep['gen_lines'])
    owner = rep['line_block']
    text = '\n'.join(lines)
    # offsets of lines
    offs = [0]
    for ln in lines:
        offs.append(offs[-1] + len(ln) + 1)
    inserts = []  # (char offset, name)
    for b in rep['blocks']:
        if b['kind'] != 'fn':
            continue
        idx = [i for i, o in enumerate(owner) if o == b['name']]
        if not idx:
            continue
        s, e = offs[idx[0]], offs[idx[-1] + 1]
        seg = text[s:e]
        ts = lex(seg)
        # the body brace: the `{` that follows the signature: first `{` at depth 0 not inside a spec clause
        ghost = extract.ghost_token_indices(ts)
        k = 0
        body = None
        while k < len(ts):
            if k in ghost:
                k += 1
                continue
            t = ts[k][1]
            if t in '([':
                k = match_close(ts, k) + 1
                continue
            if t == '{':
                body = k
                break
            k += 1
        if body is None:
            continue
        # with `loop_isolation(false)` the loops are verified in the same query as the body, and after a failed assertion Verus
        # assumes it: a body probe would mask the loop probe.  The (first) loop probe stands for both - it is only reachable,
        # and only rejected, if the precondition and the invariant are satisfiable together
        shared_query = 'loop_isolation(false)' in seg
        if not shared_query:
            inserts.append((s + ts[body][3], b['name'] + ' body'))
        n_before = len(inserts)
        end = match_close(ts, body)
        k = body + 1
        while k < end:
            if k in ghost:
                k += 1
                continue
            t = ts[k]
            if t[0] == 'punct' and t[1] in '([{' and k >= 2 and ts[k - 1][1] == '!' and ts[k - 2][0] == 'ident':
                k = match_close(ts, k) + 1  # macro arguments (quote! templates) are not code
                continue
            if t[0] == 'ident' and t[1] in ('for', 'while', 'loop') and ts[k - 1][1] != '.':
                j = k + 1
                while j < end:
                    if j in ghost:
                        j += 1
                        continue
                    if ts[j][1] in '([':
                        j = match_close(ts, j) + 1
                        continue
                    if ts[j][1] == '{':
                        # `{ let __x =` ghost-naming wrappers open with `{` too: they are followed by `let __`
                        if ts[j + 1][1] == 'let' and ts[j + 2][1].startswith('__'):
                            j = match_close(ts, j) + 1
                            continue
                        if not (shared_query and len(inserts) > n_before):
                            inserts.append((s + ts[j][3], b['name'] + ' loop'))
                        break
                    j += 1
                k = j + 1
                continue
            k += 1
        if shared_query and len(inserts) == n_before:
            inserts.append((s + ts[body][3], b['name'] + ' body'))
    inserts.sort()
    out = []
    pos = 0
    for off, name in inserts:
        out.append(text[pos:off])
        out.append(' assert(false); /*PROBE %s*/ ' % name)
        pos = off
    out.append(text[pos:])
    ptext = ''.join(out)
    plines = [i + 1 for i, ln in enumerate(ptext.split('\n')) if '/*PROBE ' in ln]
    return ptext, plines, [n for _, n in inserts]


def scan_assumptions(paths):
    """Every place where something is assumed rather than proved."""
    found = []
    cheats = []
    pat = re.compile(r'\b(assume_specification|external_body|external_type_specification|uninterp\s+spec\s+fn\s+\w+|broadcast\s+axiom\s+fn\s+\w+|axiom\s+fn\s+\w+|external_fn_specification)\b')
    cheat = re.compile(r'\b(assume|admit)\s*\(')
    for p in paths:
        try:
            txt = open(p, encoding='utf-8').read()
        except OSError:
            continue
        for no, ln in enumerate(txt.split('\n'), 1):
            code = ln.split('//')[0]
            for m in pat.finditer(code):
                found.append('%s:%d %s' % (os.path.relpath(p, ROOT), no, ' '.join(code.strip().split())[:140]))
                break
            if cheat.search(code):
                cheats.append('%s:%d %s' % (os.path.relpath(p, ROOT), no, code.strip()[:120]))
    return found, cheats


def lib_paths(gen_text):
    out = []
    for m in re.finditer(r'#\[path\s*=\s*"([^"]+)"\]', gen_text):
        out.append(os.path.normpath(os.path.join(GEN, 'x', m.group(1))) if not os.path.isabs(m.group(1)) else m.group(1))
    return out


def cost_guard(gen_lines, owner):
    """Unit `cost` (directive `//@cost-counter <ghost var> :: <walker fns>`): the step counter is an annotation, so it is only
    meaningful if nothing runs uncounted.  Every loop body of a walker must add to the counter and every call of a walker must
    bind its Ghost result (`let Ghost(x) = f(..)`).  Returns {block: [what is uncounted]} - a reason to answer UNDECIDED for
    that function (its annotations are incomplete for the changed text), never an alarm."""
    from rslex import lex, match_close
    text = '\n'.join(gen_lines)
    m = re.search(r'^//@cost-counter\s+(\w+)\s*::\s*(.*)$', text, re.M)
    if not m:
        return {}
    counter, fns = m.group(1), m.group(2).split()
    bad = {}
    ts = lex(text)
    line_of = lambda pos: text.count('\n', 0, pos)
    k = 0
    while k < len(ts):
        kind, tx, a, b = ts[k]
        blk = owner[line_of(a)] if line_of(a) < len(owner) else None
        if blk and kind == 'ident' and tx in ('for', 'while', 'loop') and not (k and ts[k - 1][1] in ('.', '::', ':')):
            # the loop body: the first `{` at nesting depth 0 after the keyword that is not part of an invariant/decreases expression
            j = k + 1
            body = None
            while j < len(ts):
                if ts[j][1] in ('(', '['):
                    j = match_close(ts, j) + 1
                    continue
                if ts[j][1] == '{':
                    e = match_close(ts, j)
                    prev = ts[j - 1][1]
                    # braces of match / struct-literal / closure inside the loop head's invariant are followed by `,` or more clauses; the body is the last brace group before the statement ends
                    body = (j, e)
                    nxt = ts[e + 1][1] if e + 1 < len(ts) else ''
                    if nxt in (',', ')', '=', '&', '|', '<', '>', '+', '-', '*', '/', '.', '?') or (e + 2 < len(ts) and ts[e + 1][1] == '=' and ts[e + 2][1] == '='):
                        j = e + 1
                        continue
                    break
                j += 1
            if body:
                inner = ' '.join(t[1] for t in ts[body[0]:body[1] + 1])
                if not re.search(r'\b%s = %s \+' % (counter, counter), inner):
                    bad.setdefault(blk, []).append('the `%s` loop at generated line %d has no step-counter increment' % (tx, line_of(a) + 1))
        if blk and kind == 'ident' and tx in fns and k + 1 < len(ts) and ts[k + 1][1] == '(' and not (k and ts[k - 1][1] == 'fn'):
            pre = [t[1] for t in ts[max(0, k - 6):k]]
            if pre[-5:-4] + pre[-4:] != ['Ghost', '(', pre[-3] if len(pre) >= 3 else '', ')', '='] or (len(pre) >= 6 and pre[-6] != 'let'):
                bad.setdefault(blk, []).append('the call of %s at generated line %d does not bind its step count' % (tx, line_of(a) + 1))
        k += 1
    return bad


def run_unit(unit_path, prop, tier, seed, tag=None):
    name = os.path.splitext(os.path.basename(unit_path))[0]
    gen_dir = os.path.join(GEN, prop if not tag else '%s-%s' % (prop, tag))
    os.makedirs(gen_dir, exist_ok=True)
    out_path = os.path.join(gen_dir, name + '.rs')
    t0 = time.time()
    u = {'unit': name, 'failures': [], 'undecided': [], 'functions': [], 'obligations': 0, 'discharged': 0,
         'solver_ms': 0, 'labels': [], 'assumptions': [], 'extraction': {}, 'vacuity': {}}
    try:
        rep = extract.generate(unit_path, out_path, spec_root=os.path.join(ROOT, 'spec'))
    except extract.ExtractError as e:
        u['undecided'].append({'reason': 'unit-file-error', 'detail': str(e)})
        return u
    u['extraction'] = {'blocks': rep['blocks'], 'changed': rep['changed'], 'conflicts': rep['conflicts'], 'lost': rep['lost'],
                       'annotations_dropped_with_deleted_code': rep.get('dropped_with_code', []),
                       'generated': os.path.relpath(out_path, ROOT),
                       'sha256': hashlib.sha256('\n'.join(rep['gen_lines']).encode()).hexdigest()[:16]}
    gen_lines = rep['gen_lines']
    owner = rep['line_block']
    block_props = {b['name']: b['props'] for b in rep['blocks']}
    for e in rep['lost']:
        u['undecided'].append({'reason': 'lost-anchor', 'detail': e})
    for tc in rep.get('trusted_changed', []):
        # a function whose contract is TRUSTED (its body is outside the verifier) was edited: nothing vouches for the contract any more
        u['undecided'].append({'reason': 'trusted-function-changed', 'detail': 'the text of %s differs from the reviewed text its trusted contract was written for (sha %s, found %s)' % (tc['block'], tc['expected'], tc['found'])})
    # a function block without a single annotation has no contract: verifying it proves nothing (unit-file error, never /repo's)
    for b in rep['blocks']:
        if b.get('kind') == 'fn' and not b.get('proved_in') and not b.get('insertions') and b['name'] not in rep['changed']:
            u['undecided'].append({'reason': 'unit-file-error', 'detail': 'fn block %s carries no annotation at all (no contract)' % b['name']})
    r = sh(verus_cmd(out_path), cwd=gen_dir)
    pv = parse_verus(r.stdout, r.stderr)
    if any(is_rlimit(d) for d in pv['diags']):
        # a resource-limit hit is no verdict: try once more with ten times the limit (a wrong token sequence is usually
        # refuted, and a slow proof usually found, well inside it); what is still out of resources stays UNDECIDED
        r = sh(verus_cmd(out_path, ['--rlimit', '100']), cwd=gen_dir)
        pv_big = parse_verus(r.stdout, r.stderr)
        if pv_big['json'] is not None:
            pv = pv_big
            u['rlimit_retry'] = {'rlimit': 100, 'still_out_of_resources': any(is_rlimit(d) for d in pv['diags'])}
    if tier == 'thorough' and not tag:
        # stability probe (never deciding): the same file under another solver seed and a 4x rlimit
        r2 = sh(verus_cmd(out_path, ['--rlimit', '40', '--smt-option', 'smt.random_seed=%d' % (seed % 1000)]), cwd=gen_dir)
        pv2 = parse_verus(r2.stdout, r2.stderr)
        v1 = (pv['json'] or {}).get('verification-results', {})
        v2 = (pv2['json'] or {}).get('verification-results', {})
        u['stability'] = {'seed': seed % 1000, 'rlimit': 40, 'same_verdict': (v1.get('verified'), v1.get('errors')) == (v2.get('verified'), v2.get('errors')),
                          'verified': v2.get('verified'), 'errors': v2.get('errors'),
                          'slow_functions': [f['function'] for mt in (pv2['json'] or {}).get('times-ms', {}).get('smt', {}).get('smt-run-module-times', [])
                                             for f in mt.get('function-breakdown', []) if f.get('time', 0) > 10000]}
    # labelled clauses of this property in the generated text
    for i, ln in enumerate(gen_lines):
        for m in LABEL.finditer(ln):
            if m.group(1) == prop:
                u['labels'].append({'label': '%s.%s' % (m.group(1), m.group(2)), 'line': i + 1, 'text': ln.strip()[:200],
                                    'block': owner[i]})
    if pv['json'] is None:
        u['undecided'].append({'reason': 'tool-error', 'detail': pv['raw_err'][-800:]})
        return u
    vr = pv['json'].get('verification-results', {})
    times = pv['json'].get('times-ms', {})
    fb = []
    for mt in times.get('smt', {}).get('smt-run-module-times', []):
        fb.extend(mt.get('function-breakdown', []))
    u['solver_ms'] = times.get('smt', {}).get('smt-run', 0)
    u['total_ms'] = times.get('total', 0)
    u['functions'] = [{'function': f['function'].split('::', 1)[-1], 'mode': f.get('mode:'), 'ms': f.get('time'),
                       'rlimit': f.get('rlimit'), 'success': f.get('success')} for f in fb]
    u['verified'] = vr.get('verified', 0)
    u['errors'] = vr.get('errors', 0)
    front_end = [d for d in pv['diags'] if not is_verification_failure(d) and not is_rlimit(d)]
    if front_end:
        changed = bool(rep['changed'])
        u['undecided'].append({'reason': 'unsupported-construct' if changed else 'tool-error',
                               'detail': '; '.join(d['message'][:200] for d in front_end[:4]),
                               'blocks_changed': rep['changed'], 'merge_conflicts': rep['conflicts']})
        return u
    conflict_blocks = set(c.get('block') for c in rep['conflicts'])
    # new code without annotations: a closure without a contract gives its caller nothing, a loop without an invariant forgets
    # everything - a proof that fails in such a function says "needs annotation", not "violates" (UNDECIDED; the witness search may decide)
    unannotated_blocks = {}
    for bi in rep['blocks']:
        ua = bi.get('unannotated')
        if ua and (ua['merged'][0] > ua['base'][0] or ua['merged'][1] > ua['base'][1]):
            unannotated_blocks[bi['name']] = 'the changed text has %d closure(s) without a contract and %d loop(s) without an invariant more than the annotated copy' % (
                max(0, ua['merged'][0] - ua['base'][0]), max(0, ua['merged'][1] - ua['base'][1]))
    uncounted = cost_guard(gen_lines, owner)
    for b, why in uncounted.items():
        u['undecided'].append({'reason': 'uncounted-work', 'detail': '%s: %s' % (b, '; '.join(why[:3])), 'blocks_changed': rep['changed']})
    for d in pv['diags']:
        if is_rlimit(d):
            u['undecided'].append({'reason': 'rlimit', 'detail': d['message'][:200]})
            continue
        # which block, which labels
        blocks = []
        labels = []
        texts_ = []
        for s in d['spans']:
            if os.path.basename(s['file']) != os.path.basename(out_path):
                # failure located in a shared spec file (callee contract clause): keep text for the report
                texts_.append('%s:%d %s' % (os.path.basename(s['file']), s['line'], s.get('label') or ''))
                continue
            for ln in range(s['line'], min(s['line_end'], s['line'] + 40) + 1):
                if 1 <= ln <= len(gen_lines):
                    if owner[ln - 1] and owner[ln - 1] not in blocks:
                        blocks.append(owner[ln - 1])
                    for m in LABEL.finditer(gen_lines[ln - 1]):
                        labels.append('%s.%s' % (m.group(1), m.group(2)))
            if 1 <= s['line'] <= len(gen_lines):
                texts_.append('%d: %s%s' % (s['line'], gen_lines[s['line'] - 1].strip()[:160], (' <- ' + s['label']) if s.get('label') else ''))
        if not labels and 'decreases' in d['message'].lower():
            # termination-measure failures are reported at the recursive call: name the function's decreases clause
            for b in blocks:
                for i, ln in enumerate(gen_lines):
                    if owner[i] == b and re.search(r'\bdecreases\b', ln):
                        labels.extend('%s.%s' % (m.group(1), m.group(2)) for m in LABEL.finditer(ln))
        # a labelled clause belongs to the properties its labels name; an unlabelled failure (overflow, callee
        # precondition, proof hint) belongs to the properties of the function it occurs in
        props = set(l.split('.')[0] for l in labels)
        if not props:
            for b in blocks:
                props.update(block_props.get(b) or [])
        fail = {'message': d['message'], 'blocks': blocks, 'labels': sorted(set(labels)), 'where': texts_, 'props': sorted(props),
                'in_real_function': bool(blocks)}
        # annotations of this function could not all be carried over to the changed text (merge conflict): a proof that
        # fails without its hints is undecided, not a violation (the witness search may still decide it)
        if set(blocks) & set(uncounted):
            continue  # reported above as uncounted-work: the function's cost annotations do not cover the changed text
        if set(blocks) & set(unannotated_blocks):
            bn = sorted(set(blocks) & set(unannotated_blocks))[0]
            u['undecided'].append({'reason': 'unannotated-new-code', 'detail': 'obligation %s of %s fails, but %s' % (', '.join(fail['labels']) or d['message'][:80], bn, unannotated_blocks[bn]),
                                   'props': fail['props'], 'blocks_changed': rep['changed']})
            continue
        if set(blocks) & conflict_blocks:
            u['undecided'].append({'reason': 'merge-conflict', 'detail': 'obligation %s of %s fails, but annotations were lost in the merge: %s' % (
                ', '.join(fail['labels']) or d['message'][:80], ', '.join(blocks), '; '.join(c['text'][:60] for c in rep['conflicts'][:3])),
                'props': fail['props'], 'blocks_changed': rep['changed'], 'merge_conflicts': rep['conflicts']})
            continue
        u['failures'].append(fail)
    u['fn_obligations'] = u['verified'] + u['errors']
    # a contract clause that was lost in the merge: what is left of the function may verify, but not against its contract
    for c in rep['conflicts']:
        if c.get('contract') or re.search(r'\b(requires|ensures|invariant|decreases)\b', c.get('text', '') + ' ' + (c.get('new') or '')):
            u['undecided'].append({'reason': 'lost-contract', 'detail': 'a contract clause of %s could not be carried over: %s' % (c.get('block'), (c.get('text') or c.get('new') or '')[:120]),
                                   'blocks_changed': rep['changed'], 'merge_conflicts': rep['conflicts']})
    # vacuity probes
    try:
        ptext, plines, pnames = make_probe(rep)
        ppath = os.path.join(gen_dir, name + '_probe.rs')
        open(ppath, 'w', encoding='utf-8').write(ptext)
        pr = sh(verus_cmd(ppath, multiple=50), cwd=gen_dir)
        ppv = parse_verus(pr.stdout, pr.stderr)
        hit = set()
        for d in ppv['diags']:
            if 'assertion failed' in d['message']:
                for s in d['spans']:
                    hit.add(s['line'])
        missing = [pnames[i] for i, ln in enumerate(plines) if ln not in hit]
        u['vacuity'] = {'probes': len(plines), 'rejected_as_expected': len(plines) - len(missing), 'vacuous': missing}
        if missing and not rep['changed']:
            u['undecided'].append({'reason': 'vacuous-precondition', 'detail': ', '.join(missing)})
    except Exception as e:  # the probe is a guard, never a verdict
        u['vacuity'] = {'error': str(e)[:200]}
    # assumption scan
    gen_text = '\n'.join(gen_lines)
    found, cheats = scan_assumptions([out_path] + lib_paths(gen_text))
    # say what each assumption in the generated file is: the stub of a callee whose contract another unit proves, or a trusted function
    stub_info = {bi['name']: bi.get('proved_in') for bi in rep['blocks'] if bi.get('kind') == 'stub'}
    rel_out = os.path.relpath(out_path, ROOT)
    described = []
    for f_ in found:
        m_ = re.match(r'(\S+):(\d+) (.*)$', f_)
        if m_ and m_.group(1) == rel_out and 'external_body' in m_.group(3):
            ln_ = int(m_.group(2))
            nm_ = owner[ln_ - 1] if 0 < ln_ <= len(owner) else None
            sig_ = next((gen_lines[q].strip() for q in range(ln_, min(ln_ + 3, len(gen_lines))) if gen_lines[q].strip()), '')[:100]
            if nm_ in stub_info:
                f_ += ' | stub of %s: %s | %s' % (nm_, ('contract proved in unit ' + stub_info[nm_]) if stub_info[nm_] else 'TRUSTED - no unit proves this contract (body outside the verifier)', sig_)
            else:
                f_ += ' | ' + sig_
        described.append(f_)
    found = described
    u['assumptions'] = found
    if cheats:
        u['undecided'].append({'reason': 'assume-or-admit-present', 'detail': '; '.join(cheats[:5])})
    u['wall_s'] = round(time.time() - t0, 2)
    return u


def run_conformance():
    """quote!/ShaderStages/Debug-name stand-ins against the real crates on the templates of the tree being checked."""
    try:
        import conform
        return conform.run(extract.REPO_SRC, os.path.join(OUT, 'build', 'conformance.json'),
                           os.environ.get('VERIF_CONFORM_TARGET', os.path.join(ROOT, 'build', 'conform-target')))
    except Exception as e:  # a tool problem is never an alarm
        return {'status': 'tool-error', 'detail': str(e)[:300]}


def load_known():
    p = os.path.join(ROOT, 'known_findings.json')
    if os.path.exists(p):
        return json.load(open(p))
    return {'findings': []}


def main():
    args = sys.argv[1:]
    if not args:
        print(__doc__)
        return 2
    prop = args[0]
    tier = os.environ.get('VERIF_TIER', 'quick')
    if '--tier' in args:
        tier = args[args.index('--tier') + 1]
    seed = int(os.environ.get('VERIF_SEED', '0') or 0)
    tag = args[args.index('--tag') + 1] if '--tag' in args else None
    if '--src' in args:  # self-test: verify a scratch copy of the sources (a mutant); never writes evidence
        extract.REPO_SRC = args[args.index('--src') + 1]
    no_evidence = '--no-evidence' in args or '--src' in args
    t0 = time.time()
    os.makedirs(GEN, exist_ok=True)
    os.makedirs(REPLAY, exist_ok=True)
    for old in (glob.glob(os.path.join(REPLAY, prop + '-*.json')) if not no_evidence else []):
        os.remove(old)
    units = units_for(prop)
    if '--only-unit' in args:  # mutation sweep: the unit that holds the mutated function only (never used by a registered command)
        only = args[args.index('--only-unit') + 1]
        units = [u for u in units if os.path.splitext(os.path.basename(u))[0] == only]
    results = []
    with cf.ThreadPoolExecutor(max_workers=8) as ex:
        futs = [ex.submit(run_unit, p, prop, tier, seed, tag) for p in units]
        conf_f = ex.submit(run_conformance) if os.environ.get('VERIF_CONFORM') != '0' and not no_evidence else None
        for f in futs:
            results.append(f.result())
        conformance = conf_f.result() if conf_f else {'status': 'skipped'}
    # extras declared by the property (kani harnesses, witness search): vtool/extras.py
    extras = {}
    if not no_evidence:
        try:
            import extras as extras_mod
            extras = extras_mod.run(prop, tier, seed, results)
        except ImportError:
            pass
    if tier == 'thorough' and not no_evidence:
        try:
            import selftest
            st = selftest.run(prop)
            extras.setdefault('report', {})['mutant_selftest'] = st
            for w in st.get('not_rejected', []):
                extras.setdefault('undecided', []).append({'reason': 'weak-contract', 'unit': 'selftest', 'detail': 'mutant %s still verifies' % w})
        except ImportError:
            pass
    extras.setdefault('report', {})['shim_conformance'] = conformance
    if conformance.get('status') == 'differs':
        # the stand-in disagrees with the real macro/crate on some template: a defect of the machinery, never of /repo
        extras.setdefault('undecided', []).append({'reason': 'shim-nonconformance', 'unit': 'conform', 'detail': json.dumps(conformance.get('failed'))[:300]})
    if tier == 'thorough' and not no_evidence and os.environ.get('VERIF_MUTSWEEP') != '0':
        try:
            import mutsweep
            extras.setdefault('report', {})['mutation_sweep'] = mutsweep.run(prop, limit=int(os.environ.get('VERIF_MUTSWEEP_N', '60')), seed=seed)
        except Exception as e:  # informational
            extras.setdefault('report', {})['mutation_sweep'] = {'error': str(e)[:200]}
    if tier == 'thorough' and not no_evidence and os.environ.get('VERIF_BENIGNSWEEP') != '0':
        try:
            import benignsweep
            bs = benignsweep.run(prop, limit=int(os.environ.get('VERIF_BENIGNSWEEP_N', '12')), seed=seed)
            extras.setdefault('report', {})['benign_sweep'] = bs
            for fa in bs.get('false_alarms', []):
                # a defect of the machinery (an alarm on behaviour-preserving code), never a violation of /repo: the check is not to be trusted on that function
                extras.setdefault('undecided', []).append({'reason': 'machinery-false-alarm', 'unit': 'benign-sweep', 'detail': '%s: %s at line %s -> %s' % (fa['fn'], fa['kind'], fa['line'], fa['verdicts'])})
        except Exception as e:  # informational
            extras.setdefault('report', {})['benign_sweep'] = {'error': str(e)[:200]}
    known = load_known()
    violations = []
    known_hits = []
    undecided = []
    for u in results:
        for ud in u['undecided']:
            undecided.append(dict(ud, unit=u['unit']))
        for f in u['failures']:
            if prop not in f['props'] and os.environ.get('VERIF_ANY_PROP') != '1':  # VERIF_ANY_PROP: mutation sweep only (a failure charged to ANY property rejects the mutant)
                continue
            if prop == 'C18':
                # C18 (the output is a function of the arguments) is established by every function verifying against its spec function; a
                # function that no longer verifies has lost that argument, but a wrong result is not a non-deterministic one: UNDECIDED for
                # C18 (the purity scan and the witness search decide), the violation belongs to the property the failing clause states
                undecided.append({'reason': 'function-not-proved-equal-to-its-spec', 'unit': u['unit'], 'detail': 'determinism of %s is no longer established (%s)' % (', '.join(f['blocks']) or 'a lemma', (f['labels'] or [f['message'][:60]])[0])})
                continue
            lab = (f['labels'] or ['%s.%s' % (prop, (f['blocks'] or ['spec'])[0].split('::')[-1])])
            lab = [l for l in lab if l.startswith(prop + '.')] or lab
            k = [k for k in known['findings'] if k.get('status') == 'open' and k['property'] == prop and k['label'] in lab]
            if k:
                known_hits.append({'finding': k[0], 'failure': f})
            else:
                violations.append({'unit': u['unit'], 'label': lab[0], 'failure': f})
    for v in extras.get('violations', []):
        violations.append(v)
    for k in extras.get('known_hits', []):
        known_hits.append(k)
    for ud in extras.get('undecided', []):
        undecided.append(ud)
    # a concrete witness decides even when the proof attempt itself was undecided
    witness = extras.get('witness')
    lines = []
    replay_paths = []
    seen_labels = set()
    uniq = []
    for v in violations:
        if v['label'] not in seen_labels:
            seen_labels.add(v['label'])
            uniq.append(v)
    violations = uniq
    for v in violations:
        safe = re.sub(r'[^A-Za-z0-9_.\-]', '_', v['label'])
        rp = os.path.join(REPLAY, '%s-%s.json' % (prop, safe))
        body = {'property': prop, 'obligation': v['label'], 'unit': v.get('unit'), 'verifier_output': v.get('failure'),
                'witness': v.get('witness') or witness, 'how_to_replay': 'python3 vtool/check.py %s --replay %s' % (prop, os.path.relpath(rp, ROOT)),
                'note': 'Verus gives no model; the witness (if any) comes from running the real crate on the corpus, see vtool/replay'}
        if not no_evidence:
            json.dump(body, open(rp, 'w'), indent=1)
        replay_paths.append(rp)
        w = body['witness']
        lines.append('VIOLATION property=%s replay=%s obligation=%s%s' % (prop, rp, v['label'], '' if w else ' no-failing-input-found'))
    for k in known_hits:
        lines.append('KNOWN-FINDING: property=%s %s' % (prop, k['finding']['what']))
    if not results and not extras:
        undecided.append({'reason': 'no-unit-serves-this-property', 'unit': None, 'detail': ''})
    status = 0
    if violations:
        status = 1
    elif undecided:
        status = 2
        for ud in undecided:
            lines.append('UNDECIDED property=%s reason=%s unit=%s %s' % (prop, ud['reason'], ud.get('unit'), ud.get('detail', '')[:300]))
    # evidence
    known_labels = set(k['finding']['label'] for k in known_hits)
    viol_labels = set(v['label'] for v in violations)
    viol_fns = set(b for v in violations for b in (v.get('failure') or {}).get('blocks', []))
    label_obl = [l for u in results for l in u['labels'] if l['label'] not in known_labels]
    fn_obl = sum(u.get('fn_obligations', 0) for u in results)
    obligations = fn_obl + len(label_obl) + extras.get('obligations', 0)
    discharged = obligations - len(viol_fns) - len([l for l in label_obl if l['label'] in viol_labels]) - (extras.get('obligations', 0) - extras.get('discharged', 0))
    if undecided and not violations:
        discharged = min(discharged, obligations - 1) if obligations else 0
    samples = []
    for u in results:
        for l in u['labels'][:6]:
            samples.append({'unit': u['unit'], 'obligation': l['label'], 'clause': l['text'], 'function': l['block']})
    samples.extend(extras.get('samples', []))
    trusted = []
    for u in results:
        trusted.extend(u['assumptions'])
    trusted = sorted(set(trusted))
    fn_under_contract = []
    for u in results:
        for b in u['extraction'].get('blocks', []):
            if b['kind'] == 'fn':
                fn_under_contract.append({'function': b['name'], 'unit': u['unit'], 'repo_line': b['repo_line'], 'source_sha256': b['sha256'],
                                          'text_changed_since_annotation': b['changed'], 'insertions': b['insertions'],
                                          'replacements': b['replacements'], 'unclassified_insertions': b['unclassified_insertions'],
                                          'normalisations': b.get('normalisations', [])})
    ev = {
        'property_id': prop, 'tier': tier, 'seed': seed, 'level': 'proof',
        'coverage': {
            'obligations': obligations, 'discharged': discharged,
            'checker_cmd': ' '.join(verus_cmd('build/gen/<unit>.rs')).replace(ROOT + '/', ''),
            'trusted_base': trusted + extras.get('trusted_base', []) + PROP_TRUST.get(prop, []),
            'samples': samples[:12],
            'functions_under_contract': fn_under_contract,
            'units': [{'unit': u['unit'], 'verus_verified': u.get('verified'), 'verus_errors': u.get('errors'), 'solver_ms': u.get('solver_ms'),
                       'total_ms': u.get('total_ms'), 'functions': u['functions'], 'vacuity': u['vacuity'], 'stability': u.get('stability'),
                       'extraction': {k: v for k, v in u['extraction'].items() if k != 'blocks'}} for u in results],
            'back_end': 'verus 0.2026.09.13 / z3 (bundled)' + extras.get('back_end', ''),
            'extras': extras.get('report', {}),
            'known_findings': [k['finding'] for k in known_hits],
            'known_finding_obligations_excluded': sorted(known_labels),
            'undecided': undecided,
            'explanation': 'obligations = Verus function-level verification conditions (one per function/lemma incl. all its requires/ensures/invariant/'
                           'decreases/overflow/callee-precondition checks) + labelled contract clauses of this property; all counted from this run',
        },
        'assumptions': GLOBAL_ASSUMPTIONS + PROP_TRUST.get(prop, []),
        'wall_s': round(time.time() - t0, 2),
        'violations': len(violations),
    }
    if no_evidence:
        print(json.dumps({'status': status, 'violations': [{'label': v['label'], 'message': (v.get('failure') or {}).get('message')} for v in violations],
                          'undecided': [{'reason': u['reason'], 'detail': u.get('detail', '')[:200]} for u in undecided]}))
        return status
    os.makedirs(EVID, exist_ok=True)
    json.dump(ev, open(os.path.join(EVID, prop + '.json'), 'w'), indent=1)
    for ln in lines:
        print(ln)
    print('%s %s: units=%s obligations=%d discharged=%d violations=%d undecided=%d known=%d wall=%.1fs' % (
        prop, {0: 'HELD', 1: 'VIOLATED', 2: 'UNDECIDED'}[status], [u['unit'] for u in results], obligations, discharged,
        len(violations), len(undecided), len(known_hits), time.time() - t0))
    return status


GLOBAL_ASSUMPTIONS = [
    'Verus (VIR->AIR->Z3), its erasure/mode checker and rustc 1.98.1 type checking of the generated file',
    'the extractor: generated text = annotated copy whose erasure is token-identical to /repo item (checked every run); whitelisted replacements listed under functions_under_contract[].replacements',
    'assumed contracts of naga / std / proc_macro2 functions and the uninterpreted views in spec/lib/*.rs (enumerated in coverage.trusted_base)',
    'machine integers: usize is 64 bit (Verus checks every exec arithmetic operation for overflow; nothing is treated as mathematical)',
    'termination is proved (decreases) for recursive walkers; wall-clock time is not a contract',
    'the quote! stand-in, the wgpu::ShaderStages stand-in and "{:?} prints the variant name" are not proved: they are conformance-tested against the real crates on every template of the checked tree (coverage.extras.shim_conformance)',
]
PROP_TRUST = {}
try:  # the per-property assumptions are the level notes of spec/claims.json (one place to edit; MANIFEST.json is generated from it too)
    PROP_TRUST = {c['id']: ['per-property: ' + c['level_note']] for c in json.load(open(os.path.join(ROOT, 'spec', 'claims.json')))['claimed']}
except Exception:
    pass

if __name__ == '__main__':
    sys.exit(main())
