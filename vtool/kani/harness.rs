// Kani harnesses for the finite-domain leaf functions (appended to a scratch copy of /repo's wgsl.rs / entry.rs at run
// time under #[cfg(kani)]; never part of /repo).  Loop-free, full symbolic domain: a passing harness is a complete proof
// for that function, a failing one yields a concrete counterexample.
//@file wgsl.rs
#[cfg(kani)]
mod verif_kani_wgsl {
    use super::*;

    fn any_kind() -> naga::ScalarKind {
        match kani::any::<u8>() % 5 {
            0 => naga::ScalarKind::Sint,
            1 => naga::ScalarKind::Uint,
            2 => naga::ScalarKind::Float,
            3 => naga::ScalarKind::Bool,
            _ => naga::ScalarKind::AbstractInt,
        }
    }
    fn any_size() -> naga::VectorSize {
        match kani::any::<u8>() % 3 {
            0 => naga::VectorSize::Bi,
            1 => naga::VectorSize::Tri,
            _ => naga::VectorSize::Quad,
        }
    }
    // what a wgpu 24 vertex format is: (kind, bytes per component, components); transcribed from wgpu-types
    fn shape(f: wgpu::VertexFormat) -> Option<(naga::ScalarKind, u8, u8)> {
        use naga::ScalarKind::*;
        use wgpu::VertexFormat as F;
        Some(match f {
            F::Uint8x2 => (Uint, 1, 2), F::Uint8x4 => (Uint, 1, 4), F::Sint8x2 => (Sint, 1, 2), F::Sint8x4 => (Sint, 1, 4),
            F::Uint16x2 => (Uint, 2, 2), F::Uint16x4 => (Uint, 2, 4), F::Sint16x2 => (Sint, 2, 2), F::Sint16x4 => (Sint, 2, 4),
            F::Float32 => (Float, 4, 1), F::Float32x2 => (Float, 4, 2), F::Float32x3 => (Float, 4, 3), F::Float32x4 => (Float, 4, 4),
            F::Uint32 => (Uint, 4, 1), F::Uint32x2 => (Uint, 4, 2), F::Uint32x3 => (Uint, 4, 3), F::Uint32x4 => (Uint, 4, 4),
            F::Sint32 => (Sint, 4, 1), F::Sint32x2 => (Sint, 4, 2), F::Sint32x3 => (Sint, 4, 3), F::Sint32x4 => (Sint, 4, 4),
            F::Float64 => (Float, 8, 1), F::Float64x2 => (Float, 8, 2), F::Float64x3 => (Float, 8, 3), F::Float64x4 => (Float, 8, 4),
            _ => return None,
        })
    }
    fn supported(kind: naga::ScalarKind, width: u8, n: u8) -> bool {
        use naga::ScalarKind::*;
        (kind == Float && (width == 4 || width == 8))
            || ((kind == Sint || kind == Uint) && (width == 4 || ((width == 1 || width == 2) && (n == 2 || n == 4))))
    }

    #[kani::proof]
    fn vertex_format_shape() {
        let kind = any_kind();
        let width: u8 = match kani::any::<u8>() % 4 { 0 => 1, 1 => 2, 2 => 4, _ => 8 };
        let scalar = naga::Scalar { kind, width };
        let vector: bool = kani::any();
        let size = any_size();
        let n: u8 = if vector { size as u8 } else { 1 };
        kani::assume(supported(kind, width, n));
        let inner = if vector { naga::TypeInner::Vector { size, scalar } } else { naga::TypeInner::Scalar(scalar) };
        // ManuallyDrop: the drop glue of TypeInner (Struct members, names) is irrelevant here and dominates CBMC's cost
        let ty = std::mem::ManuallyDrop::new(naga::Type { name: None, inner });
        let f = vertex_format(&ty);
        assert!(shape(f) == Some((kind, width, n)), "C07.format: vertex format has the kind, width and component count of the WGSL type");
    }

    #[kani::proof]
    fn naga_stages_bits() {
        let stage = match kani::any::<u8>() % 3 { 0 => naga::ShaderStage::Vertex, 1 => naga::ShaderStage::Fragment, _ => naga::ShaderStage::Compute };
        let r = naga_stages(stage);
        let want = match stage { naga::ShaderStage::Vertex => wgpu::ShaderStages::VERTEX, naga::ShaderStage::Fragment => wgpu::ShaderStages::FRAGMENT, naga::ShaderStage::Compute => wgpu::ShaderStages::COMPUTE };
        assert!(r == want, "C03.stage-bit: each stage maps to its own flag");
    }
}
//@file entry.rs
#[cfg(kani)]
mod verif_kani_entry {
    use super::*;

    #[kani::proof]
    fn location_target_count_value() {
        let location: u32 = kani::any();
        let b = naga::Binding::Location { location, second_blend_source: kani::any(), interpolation: None, sampling: None };
        assert!(location_target_count(&b) == location as usize + 1, "C14.loc: a location needs location + 1 targets");
        let bi = naga::Binding::BuiltIn(naga::BuiltIn::FragDepth);
        assert!(location_target_count(&bi) == 0, "C14.loc: a builtin needs none");
    }
}
