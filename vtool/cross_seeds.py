#!/usr/bin/env python3
"""Cross-property attribution: for a seeded change written against property P, which OTHER properties' checks (deductive part
alone) raise a violation?  Each such alarm has to be adjudicated by hand: either the change really breaks that property too
(a visibility bug breaks C02 and C03), or the failure was charged to a property it does not concern (a false alarm of attribution).
Usage: cross_seeds.py [--jobs N] ids...   writes seeded/CROSS.json"""
import concurrent.futures as cf, glob, json, os, re, shutil, subprocess, sys, tempfile
ROOT = os.path.dirname(os.path.dirname(os.path.abspath(__file__)))
args = sys.argv[1:]
jobs = 8
if '--jobs' in args:
    k = args.index('--jobs'); jobs = int(args[k + 1]); del args[k:k + 2]
file_props = {}
for u in glob.glob(os.path.join(ROOT, 'spec', 'units', '*.rs')):
    t = open(u, encoding='utf-8').read()
    m = re.search(r'^//@props (.*)$', t, re.M)
    props = m.group(1).split() if m else []
    for f in set(re.findall(r'^//@(?:fn|stub|item|type)\s+(\w+\.rs)::', t, re.M)):
        file_props.setdefault(f, set()).update(props)

def one(job):
    sid, prop = job
    d = tempfile.mkdtemp(prefix='verif-cross-')
    try:
        os.makedirs(os.path.join(d, 'wgsl_to_wgpu'))
        shutil.copytree('/repo/wgsl_to_wgpu/src', os.path.join(d, 'wgsl_to_wgpu', 'src'))
        subprocess.run(['patch', '-s', '-p1', '-i', os.path.join(ROOT, 'seeded', sid, 'patch.diff')], cwd=d, capture_output=True)
        tag = 'x-%s' % sid
        r = subprocess.run([sys.executable, os.path.join(ROOT, 'vtool', 'check.py'), prop, '--src', os.path.join(d, 'wgsl_to_wgpu', 'src'), '--tag', tag], cwd=ROOT, capture_output=True, text=True)
        last = [l for l in r.stdout.strip().split('\n') if l.startswith('{')]
        info = json.loads(last[-1]) if last else {}
        shutil.rmtree(os.path.join(ROOT, 'build', 'gen', '%s-%s' % (prop, tag)), ignore_errors=True)
        return sid, prop, r.returncode, [v['label'] for v in info.get('violations', [])][:3]
    finally:
        shutil.rmtree(d, ignore_errors=True)

jl = []
for sid in args:
    own = sid.split('-')[0]
    files = sorted(set(os.path.basename(x) for x in re.findall(r'^\+\+\+ b/(\S+)', open(os.path.join(ROOT, 'seeded', sid, 'patch.diff')).read(), re.M)))
    props = sorted(set().union(*[file_props.get(f, set()) for f in files]) - {own})
    jl += [(sid, p) for p in props]
out = {}
with cf.ThreadPoolExecutor(max_workers=jobs) as ex:
    for sid, prop, rc, labels in ex.map(one, jl):
        if rc == 1:
            out.setdefault(sid, {})[prop] = labels
            print(sid, 'also alarms', prop, labels, flush=True)
p = os.path.join(ROOT, 'seeded', 'CROSS.json')
old = json.load(open(p)) if os.path.exists(p) else {}
old.update(out)
json.dump(old, open(p, 'w'), indent=1)
print('done', len(jl), 'checks;', sum(len(v) for v in out.values()), 'cross alarms')
