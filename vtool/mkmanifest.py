#!/usr/bin/env python3
"""Writes MANIFEST.json from spec/claims.json (one place to edit) and validates it against the schema if jsonschema is available."""
import json, os, sys
ROOT = os.path.dirname(os.path.dirname(os.path.abspath(__file__)))
claims = json.load(open(os.path.join(ROOT, 'spec', 'claims.json')))
props = [json.loads(l) for l in open(os.path.join(ROOT, 'properties.jsonl'))]
checks = []
for c in claims['claimed']:
    pid = c['id']
    checks.append({
        'property_id': pid,
        'quick_cmd': 'python3 vtool/check.py %s --tier quick' % pid,
        'thorough_cmd': 'python3 vtool/check.py %s --tier thorough' % pid,
        'evidence_file': '/verif/evidence/%s.json' % pid,
        'replay_cmd_template': 'python3 vtool/check.py %s --replay {path}' % pid,
        'engine': 'verus-contracts',
        'level_claimed': {'category': 'proof', 'text': c['level_text'], 'design_ref': 'DESIGN.md section 5 / %s' % pid},
        'level_note': c['level_note'],
        'technique': c.get('technique', 'contract-based deductive verification (Verus) of the extracted real functions'),
    })
m = {
    'version': 1,
    'setup_cmd': 'bash vtool/setup.sh',
    'hooks': {'guard': 'none', 'enable': 'no hook in /repo is needed: checks read the working tree of /repo/wgsl_to_wgpu/src and build scratch copies elsewhere',
              'baseline_off_cmd': 'cd /repo && cargo test --workspace --no-fail-fast --offline', 'source_commits': [], 'add_only': True},
    'engines': [{'name': 'verus-contracts', 'path': 'vtool/check.py', 'serves_properties': [c['id'] for c in claims['claimed']],
                 'kind_free_text': 'annotated copies of the real functions (erasure checked token for token against /repo on every run) verified by Verus against the real naga/proc_macro2 rlibs; Kani for finite leaf functions; replay of violations on the real crate'}],
    'checks': checks,
    'not_applicable': claims['not_applicable'],
    'notes': claims.get('notes', ''),
}
json.dump(m, open(os.path.join(ROOT, 'MANIFEST.json'), 'w'), indent=1)
try:
    import jsonschema
    jsonschema.validate(m, json.load(open('/root/.vp/MANIFEST.schema.json')))
    print('MANIFEST.json valid; %d checks, %d not_applicable' % (len(checks), len(m['not_applicable'])))
except ImportError:
    print('MANIFEST.json written (jsonschema not available for validation)')
ids = set(c['id'] for c in claims['claimed']) | set(n['property_id'] for n in claims['not_applicable'])
missing = [p['id'] for p in props if p['id'] not in ids]
if missing:
    print('WARNING: properties neither claimed nor not_applicable:', missing); sys.exit(1)
