#!/bin/bash
# Build the dependency rlibs of /repo/wgsl_to_wgpu with Verus's pinned rustc (offline) and record
# the exact rlib that each direct dependency resolves to in build/externs.json.
set -euo pipefail
HERE="$(cd "$(dirname "$0")" && pwd)"
ROOT="$(dirname "$HERE")"
export RUSTUP_TOOLCHAIN=1.98.1-x86_64-unknown-linux-gnu CARGO_NET_OFFLINE=true
export CARGO_TARGET_DIR="$ROOT/build/deps"
mkdir -p "$ROOT/build"
cp /repo/Cargo.lock "$HERE/deps/Cargo.lock"
cd "$HERE/deps"
cargo build --offline --message-format=json 2>"$ROOT/build/deps_build.log" | python3 -c '
import json,sys
want={"naga","wgpu_types","proc_macro2","syn","quote","prettyplease","case","indexmap","rustc_hash"}
# the last artifact named X that is an rlib and is a direct dependency of depbuild
arts={}
dep=None
for l in sys.stdin:
    try: m=json.loads(l)
    except Exception: continue
    if m.get("reason")!="compiler-artifact": continue
    n=m["target"]["name"].replace("-","_")
    kinds=m["target"]["kind"]
    if "lib" not in kinds and "rlib" not in kinds: continue
    for f in m["filenames"]:
        if f.endswith(".rlib"):
            arts.setdefault(n,[]).append((f,m.get("features",[]),m["package_id"]))
out={}
for n in want:
    c=arts.get(n,[])
    if not c: sys.exit("missing rlib for "+n)
    # several builds of one crate (build-dependency copies): take the one with most features,
    # which is the one the normal (non build-script) dependency graph uses.
    c.sort(key=lambda x:len(x[1]))
    out[n]=c[-1][0]
json.dump(out,open(sys.argv[1],"w"),indent=1)
' "$ROOT/build/externs.json"
cat "$ROOT/build/externs.json"
