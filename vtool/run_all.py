#!/usr/bin/env python3
"""Run every check of MANIFEST.json (quick tier by default) in parallel and print one line each.  Used before committing evidence."""
import concurrent.futures as cf, json, os, subprocess, sys
ROOT = os.path.dirname(os.path.dirname(os.path.abspath(__file__)))
tier = sys.argv[1] if len(sys.argv) > 1 else 'quick'
m = json.load(open(os.path.join(ROOT, 'MANIFEST.json')))
def run(c):
    cmd = c['quick_cmd'] if tier == 'quick' else c.get('thorough_cmd', c['quick_cmd'])
    r = subprocess.run(cmd, shell=True, cwd=ROOT, stdout=subprocess.PIPE, stderr=subprocess.STDOUT, text=True)
    return c['property_id'], r.returncode, r.stdout.strip().split('\n')
bad = 0
with cf.ThreadPoolExecutor(max_workers=4) as ex:
    for pid, rc, out in ex.map(run, m['checks']):
        print('%s exit=%d  %s' % (pid, rc, out[-1]))
        for ln in out[:-1]:
            print('    ' + ln[:300])
        bad += rc != 0
sys.exit(1 if bad else 0)
