#!/usr/bin/env python3
"""Conformance tests for the stand-ins used by the Verus units (spec/lib/tokens.rs `quote!`, spec/lib/wgpu_shim.rs
`ShaderStages`, the `{:?}`-is-the-variant-name assumption).  Not a proof: an executable comparison against the real
crates, re-generated from /repo's current sources on every run.

  conform.py [--src DIR] [--out FILE]     exit 0 all comparisons agree / 1 some differ / 2 could not be built

Writes build/conformance.json: {status, comparisons, template_comparisons, templates_sha256, failed: [...]}.
"""
import glob
import hashlib
import json
import os
import re
import subprocess
import sys

HERE = os.path.dirname(os.path.abspath(__file__))
ROOT = os.path.dirname(HERE)
sys.path.insert(0, HERE)
from rslex import lex, match_close, test_module_start  # noqa: E402

CRATE = os.path.join(HERE, 'conform')


def templates(src_dir):
    """Every `quote!(..)` invocation in the non-test part of the sources: (file, line, text, single vars, repetition vars)."""
    out = []
    for f in sorted(glob.glob(os.path.join(src_dir, '*.rs'))):
        src = open(f, encoding='utf-8').read()
        ts = lex(src)
        limit = test_module_start(src, ts)
        k = 0
        while k + 2 < len(ts):
            if ts[k][1] == 'quote' and ts[k + 1][1] == '!' and ts[k + 2][1] in '([{' and ts[k][2] < limit and (k == 0 or ts[k - 1][1] != '$'):
                e = match_close(ts, k + 2)
                inner = ts[k + 3:e]
                text = src[ts[k + 2][3]:ts[e][2]]
                singles, reps = [], []

                def walk(lo, hi, in_rep):
                    j = lo
                    while j < hi:
                        if inner[j][1] == '#' and j + 1 < hi:
                            if inner[j + 1][0] == 'ident':
                                (reps if in_rep else singles).append(inner[j + 1][1])
                                j += 2
                                continue
                            if inner[j + 1][1] == '(':
                                c = match_close(inner, j + 1)
                                walk(j + 2, c, True)
                                j = c + 1
                                continue
                        j += 1
                walk(0, len(inner), False)
                out.append({'file': os.path.basename(f), 'line': src.count('\n', 0, ts[k][2]) + 1, 'text': text,
                            'singles': sorted(set(singles)), 'reps': sorted(set(reps))})
                k = e + 1
                continue
            k += 1
    return out


def shim_macro_text():
    t = open(os.path.join(ROOT, 'spec', 'lib', 'tokens.rs'), encoding='utf-8').read()
    a = t.index('macro_rules! quote {')
    b = t.index('// specification side')
    return t[a:b]


def shim_stages_text():
    """The executable items of spec/lib/wgpu_shim.rs with the Verus clauses erased (`-> (r: T) ensures ..` -> `-> T`)."""
    t = open(os.path.join(ROOT, 'spec', 'lib', 'wgpu_shim.rs'), encoding='utf-8').read()
    body = t[t.index('verus! {') + len('verus! {'):t.rindex('} // verus!')]
    # drop spec-only items
    body = re.sub(r'impl vstd::std_specs::[\w:]+(<[^>]*>)? for ShaderStages \{.*?\n\}\n', '', body, flags=re.S)
    body = re.sub(r'pub open spec fn or_all.*?\n', '', body)
    body = re.sub(r'#\[verifier::[^\]]*\]\s*', '', body)
    body = re.sub(r'->\s*\((\w+):\s*([^)]+)\)\s*(ensures[^{]*)?\{', r'-> \2 {', body)
    body = body.replace('#[derive(Clone, Copy, Debug)]', '#[derive(Clone, Copy, Debug)]')
    if 'ensures' in body or 'spec fn' in body:
        raise RuntimeError('could not erase the Verus clauses of wgpu_shim.rs')
    return body


def transcribed_specs():
    """Spec functions marked `//@conform` in spec/lib: transcriptions of dependency functions written as plain `match`
    expressions, re-emitted as executable Rust (`pub open spec fn` -> `pub fn`, `int` = i64) so that they can be run next to the
    real function."""
    out = []
    for f in sorted(glob.glob(os.path.join(ROOT, 'spec', 'lib', '*.rs'))):
        t = open(f, encoding='utf-8').read()
        for m in re.finditer(r'//@conform\n(pub open spec fn (\w+)\b)', t):
            a = m.start(1)
            b = t.index('{', a)
            depth, k = 0, b
            while True:
                if t[k] == '{':
                    depth += 1
                elif t[k] == '}':
                    depth -= 1
                    if depth == 0:
                        break
                k += 1
            out.append((m.group(2), t[a:k + 1].replace('pub open spec fn', 'pub fn', 1)))
    return out


def sa_bit_constants():
    """The bit values the prelude assumes for naga::StorageAccess::{LOAD, STORE, ATOMIC}."""
    t = open(os.path.join(ROOT, 'spec', 'lib', 'prelude.rs'), encoding='utf-8').read()
    return {n: int(v) for v, n in re.findall(r'ensures sa_bits\(r\) == (\d+) \{ naga::StorageAccess::(\w+) \}', t)}


def enum_variants(path, name):
    src = open(path, encoding='utf-8').read()
    m = re.search(r'pub enum %s\s*\{' % name, src)
    ts = lex(src[m.end() - 1:])
    e = match_close(ts, 0)
    out = []
    k = 1
    while k < e:
        t = ts[k]
        if t[1] == '#' and ts[k + 1][1] == '[':
            k = match_close(ts, k + 1) + 1
            continue
        if t[0] == 'ident':
            out.append(t[1])
            # skip to the next top-level comma
            while k < e and ts[k][1] != ',':
                if ts[k][1] in '([{':
                    k = match_close(ts, k)
                k += 1
        k += 1
    return out


def registry(crate):
    c = sorted(glob.glob(os.path.expanduser('~/.cargo/registry/src/*/%s' % crate)))
    if not c:
        raise RuntimeError('registry source of %s not found' % crate)
    return c[0]


def generate(src_dir):
    tpls = templates(src_dir)
    g = ['// GENERATED by vtool/conform.py - do not edit', '#![allow(unused_macros, unused_variables, unused_mut, non_snake_case)]',
         'use crate::{compare, dummy, dummies, Outcome};', '', shim_macro_text(), '']
    g.append('pub fn templates(__out: &mut Vec<Outcome>) {')
    for i, t in enumerate(tpls):
        name = '%s:%d' % (t['file'], t['line'])
        g.append('    { // %s' % name)
        for v in t['singles']:
            if v in t['reps']:
                continue
            g.append('        let %s = dummy("%s", 0);' % (v, v))
        if t['reps']:
            g.append('        for __n in [0usize, 1, 3] {')
            for v in t['reps']:
                g.append('            let %s = dummies("%s", __n);' % (v, v))
            g.append('            compare(&format!("%s/n={}", __n), ::quote::quote!{%s}, quote!{%s}, __out);' % (name, t['text'], t['text']))
            g.append('        }')
        else:
            g.append('        compare("%s", ::quote::quote!{%s}, quote!{%s}, __out);' % (name, t['text'], t['text']))
        g.append('    }')
    g.append('}')
    g.append('pub mod shim_stages {')
    g.append(shim_stages_text())
    g.append('}')
    sf = enum_variants(os.path.join(registry('naga-24.0.0'), 'src', 'lib.rs'), 'StorageFormat')
    vf = enum_variants(os.path.join(registry('wgpu-types-24.0.0'), 'src', 'lib.rs'), 'VertexFormat')
    g.append('pub fn debug_names(out: &mut Vec<Outcome>) {')
    g.append('    // exhaustive matches: a variant missing from the generated list is a compile error')
    g.append('    let sf_name = |f: naga::StorageFormat| -> (&\'static str, String) { match f {')
    for v in sf:
        g.append('        naga::StorageFormat::%s => ("%s", format!("{:?}", wgpu_types::TextureFormat::%s)),' % (v, v, v))
    g.append('    } };')
    g.append('    for f in [%s] {' % ', '.join('naga::StorageFormat::' + v for v in sf))
    g.append('        let (n, w) = sf_name(f); let d = format!("{:?}", f);')
    g.append('        out.push(Outcome { name: format!("debug.StorageFormat.{}", n), ok: d == n && w == n, detail: format!("naga {:?} wgpu {:?}", d, w) });')
    g.append('    }')
    g.append('    let vf_name = |f: wgpu_types::VertexFormat| -> &\'static str { match f {')
    for v in vf:
        g.append('        wgpu_types::VertexFormat::%s => "%s",' % (v, v))
    g.append('    } };')
    g.append('    for f in [%s] {' % ', '.join('wgpu_types::VertexFormat::' + v for v in vf))
    g.append('        let n = vf_name(f); let d = format!("{:?}", f);')
    g.append('        out.push(Outcome { name: format!("debug.VertexFormat.{}", n), ok: d == n, detail: format!("{:?}", d) });')
    g.append('    }')
    g.append('}')
    g.append('pub mod transcribed {')
    g.append('    #![allow(non_camel_case_types, unused_variables)]')
    g.append('    pub type int = i64;')
    names = []
    for name, text in transcribed_specs():
        names.append(name)
        g.append(text)
    sab = sa_bit_constants()
    for n in ('LOAD', 'STORE', 'ATOMIC'):
        g.append('    pub const SA_%s: u32 = %d;' % (n, sab[n]))
    g.append('    pub const ALL_VERTEX_FORMATS: [wgpu_types::VertexFormat; %d] = [%s];' % (len(vf), ', '.join('wgpu_types::VertexFormat::' + v for v in vf)))
    g.append('}')
    for need in ('lit_zero', 'inner_scalar', 'stmt_is_terminator', 'vf_shape'):
        if need not in names:
            raise RuntimeError('transcribed spec %s not found (//@conform marker lost?)' % need)
    text = '\n'.join(g) + '\n'
    sha = hashlib.sha256(json.dumps([(t['file'], t['text']) for t in tpls]).encode()).hexdigest()[:16]
    return text, tpls, sha, sf, vf


def wgpu_core_roundtrip(sf):
    """wgpu-core maps wgt::TextureFormat::X back to naga::StorageFormat::X for every storage format (read in its source)."""
    try:
        src = open(os.path.join(registry('wgpu-core-24.0.5'), 'src', 'validation.rs'), encoding='utf-8').read()
    except Exception as e:
        return {'status': 'not-checked', 'detail': str(e)[:200]}
    a = src.index('pub fn map_storage_format_to_naga')
    body = src[a:src.index('\n}\n', a)]
    pairs = dict(re.findall(r'Tf::(\w+)\s*=>\s*Sf::(\w+)', body))
    bad = [v for v in sf if pairs.get(v) != v]
    return {'status': 'ok' if not bad else 'differs', 'formats': len(sf), 'not_mapped_to_same_name': bad,
            'what': 'wgpu-core 24.0.5 validation.rs::map_storage_format_to_naga maps TextureFormat::X to StorageFormat::X (source text read, not executed)'}


def templates_sha(src_dir):
    tpls = templates(src_dir)
    return hashlib.sha256(json.dumps([(t['file'], t['text']) for t in tpls]).encode()).hexdigest()[:16]


def run(src_dir='/repo/wgsl_to_wgpu/src', out_path=None, target=None):
    out_path = out_path or os.path.join(ROOT, 'build', 'conformance.json')
    target = target or os.path.join(ROOT, 'build', 'conform-target')
    res = {'status': 'tool-error', 'level': 'executable conformance test (not a proof): the stand-ins agree with the real crates on every template of /repo with dummy interpolands'}
    try:
        text, tpls, sha, sf, vf = generate(src_dir)
        res.update({'templates': len(tpls), 'templates_sha256': sha, 'storage_formats': len(sf), 'vertex_formats': len(vf)})
        gp = os.path.join(CRATE, 'src', 'generated.rs')
        if not os.path.exists(gp) or open(gp, encoding='utf-8').read() != text:
            open(gp, 'w', encoding='utf-8').write(text)
        subprocess.run(['cp', '/repo/Cargo.lock', os.path.join(CRATE, 'Cargo.lock')], check=False)
        env = dict(os.environ, CARGO_TARGET_DIR=target, CARGO_NET_OFFLINE='true')
        b = subprocess.run(['cargo', 'build', '--offline', '-q'], cwd=CRATE, env=env, stdout=subprocess.PIPE, stderr=subprocess.PIPE, text=True, timeout=900)
        if b.returncode != 0:
            res.update({'status': 'build-failed', 'detail': b.stderr[-3000:]})
        else:
            r = subprocess.run([os.path.join(target, 'debug', 'conform')], stdout=subprocess.PIPE, stderr=subprocess.PIPE, text=True, timeout=120)
            d = json.loads(r.stdout)
            res.update(d)
            res['status'] = 'ok' if r.returncode == 0 and not d['failed'] else 'differs'
        res['wgpu_core_storage_format_roundtrip'] = wgpu_core_roundtrip(sf)
    except Exception as e:
        res['detail'] = str(e)[:500]
    os.makedirs(os.path.dirname(out_path), exist_ok=True)
    json.dump(res, open(out_path, 'w'), indent=1)
    return res


if __name__ == '__main__':
    a = sys.argv[1:]
    src = a[a.index('--src') + 1] if '--src' in a else '/repo/wgsl_to_wgpu/src'
    outp = a[a.index('--out') + 1] if '--out' in a else None
    r = run(src, outp)
    print(json.dumps({k: v for k, v in r.items() if k != 'level'}, indent=1)[:3000])
    sys.exit({'ok': 0, 'differs': 1}.get(r['status'], 2))
