#!/usr/bin/env python3
"""Authoring helpers.
  vt.py plain <unit>   spec/units/<unit>.rs -> build/work/<unit>.rs   (markers resolved; edit + run verus on this)
  vt.py mark  <unit>   build/work/<unit>.rs -> spec/units/<unit>.rs   (markers recomputed against /repo's items)
  vt.py gen   <unit>   spec/units/<unit>.rs -> build/gen/<unit>.rs    (what the checks verify)
  vt.py verus <file> [verus args]   run verus with the dependency externs
"""
import json, os, subprocess, sys
HERE = os.path.dirname(os.path.abspath(__file__))
ROOT = os.path.dirname(HERE)
sys.path.insert(0, HERE)
import extract


def verus_cmd(path, extra=()):
    ext = json.load(open(os.path.join(ROOT, 'build', 'externs.json')))
    deps = os.path.dirname(ext['naga'])
    cmd = ['verus', path, '-L', 'dependency=' + deps]
    for k in ('naga', 'indexmap', 'rustc_hash', 'proc_macro2', 'syn', 'wgpu_types', 'case', 'prettyplease'):
        cmd += ['--extern', '%s=%s' % (k, ext[k])]
    cmd += ['--triggers-mode', 'silent'] + list(extra)
    return cmd


def mark(unit):
    src = os.path.join(ROOT, 'build', 'work', unit + '.rs')
    u = extract.parse_unit(src)
    out = []
    for seg in u['segments']:
        if seg[0] == 'text':
            out.extend(seg[1])
        else:
            b = seg[1]
            real, _ = extract.real_item_text(b)
            real = extract.normalise(u, real)
            marked = extract.annotate(real, '\n'.join(b['lines']))
            out.append(b['header'])
            out.extend(marked.split('\n'))
            out.append(b['footer'])
    dst = os.path.join(ROOT, 'spec', 'units', unit + '.rs')
    open(dst, 'w', encoding='utf-8').write('\n'.join(out))
    print('wrote', dst)


def plain(unit):
    src = os.path.join(ROOT, 'spec', 'units', unit + '.rs')
    u = extract.parse_unit(src)
    out = []
    for seg in u['segments']:
        if seg[0] == 'text':
            out.extend(seg[1])
        else:
            b = seg[1]
            out.append(b['header'])
            out.extend(extract.resolve(extract.split_chunks('\n'.join(b['lines']))).split('\n'))
            out.append(b['footer'])
    dst = os.path.join(ROOT, 'build', 'work', unit + '.rs')
    os.makedirs(os.path.dirname(dst), exist_ok=True)
    open(dst, 'w', encoding='utf-8').write('\n'.join(out))
    print('wrote', dst)


if __name__ == '__main__':
    cmd = sys.argv[1]
    if cmd == 'mark':
        mark(sys.argv[2])
    elif cmd == 'plain':
        plain(sys.argv[2])
    elif cmd == 'gen':
        rep = extract.generate(os.path.join(ROOT, 'spec', 'units', sys.argv[2] + '.rs'), os.path.join(ROOT, 'build', 'gen', sys.argv[2] + '.rs'))
        rep.pop('line_block'); rep.pop('gen_lines')
        print(json.dumps(rep, indent=1))
    elif cmd == 'verus':
        sys.exit(subprocess.call(verus_cmd(sys.argv[2], sys.argv[3:])))


def normalise_work(unit):
    """Re-apply the unit's mechanical rewrites to every block of build/work/<unit>.rs (idempotent)."""
    src = os.path.join(ROOT, 'build', 'work', unit + '.rs')
    u = extract.parse_unit(src)
    out = []
    for seg in u['segments']:
        if seg[0] == 'text':
            out.extend(seg[1])
        else:
            b = seg[1]
            out.append(b['header'])
            out.extend(extract.normalise(u, '\n'.join(b['lines'])).split('\n'))
            out.append(b['footer'])
    open(src, 'w', encoding='utf-8').write('\n'.join(out))


if __name__ == '__main__' and sys.argv[1] == 'norm':
    normalise_work(sys.argv[2])
