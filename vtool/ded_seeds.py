#!/usr/bin/env python3
"""Deductive part ALONE on every seeded change (no witness search, no scan): how much of the detection is the verifier's.
Each patch is applied to a scratch copy of the sources (patch -p1), check.py runs with --src (never writes evidence).
Writes seeded/DEDUCTIVE.json: {seed: {status, violations, undecided reasons}} and prints a summary by reason.
Usage: ded_seeds.py [--jobs N] [ids...]"""
import concurrent.futures as cf, glob, json, os, shutil, subprocess, sys, tempfile, collections
ROOT = os.path.dirname(os.path.dirname(os.path.abspath(__file__)))
args = sys.argv[1:]
jobs = 6
if '--jobs' in args:
    k = args.index('--jobs'); jobs = int(args[k + 1]); del args[k:k + 2]
ids = args or sorted(os.path.basename(p) for p in glob.glob(os.path.join(ROOT, 'seeded', 'C*')) if os.path.isdir(p))

def one(sid):
    prop = sid.split('-')[0]
    d = tempfile.mkdtemp(prefix='verif-ded-')
    try:
        os.makedirs(os.path.join(d, 'wgsl_to_wgpu'))
        shutil.copytree('/repo/wgsl_to_wgpu/src', os.path.join(d, 'wgsl_to_wgpu', 'src'))
        p = subprocess.run(['patch', '-s', '-p1', '-i', os.path.join(ROOT, 'seeded', sid, 'patch.diff')], cwd=d, capture_output=True, text=True)
        if p.returncode != 0:
            return sid, {'status': 'patch-failed'}
        r = subprocess.run([sys.executable, os.path.join(ROOT, 'vtool', 'check.py'), prop, '--src', os.path.join(d, 'wgsl_to_wgpu', 'src'), '--tag', 'ded-' + sid],
                           cwd=ROOT, capture_output=True, text=True)
        last = [l for l in r.stdout.strip().split('\n') if l.startswith('{')]
        info = json.loads(last[-1]) if last else {}
        return sid, {'status': {0: 'held', 1: 'violation', 2: 'undecided'}.get(r.returncode, 'exit %d' % r.returncode),
                     'violations': [v['label'] for v in info.get('violations', [])][:4],
                     'undecided': [(u['reason'], (u.get('detail') or '')[:160]) for u in info.get('undecided', [])][:4]}
    finally:
        shutil.rmtree(d, ignore_errors=True)
        shutil.rmtree(os.path.join(ROOT, 'build', 'gen', '%s-ded-%s' % (prop, sid)), ignore_errors=True)

out_path = os.path.join(ROOT, 'seeded', 'DEDUCTIVE.json')
res = json.load(open(out_path)) if os.path.exists(out_path) and args else {}
with cf.ThreadPoolExecutor(max_workers=jobs) as ex:
    for sid, r in ex.map(one, ids):
        res[sid] = r
        print(sid, r['status'], r.get('violations') or r.get('undecided'), flush=True)
json.dump(res, open(out_path, 'w'), indent=1)
c = collections.Counter(r['status'] for r in res.values())
print('summary:', dict(c))
why = collections.Counter(u[0] for r in res.values() if r['status'] == 'undecided' for u in r['undecided'][:1])
print('undecided by first reason:', dict(why))
