#!/usr/bin/env python3
"""Mutant self-test (thorough tier, DESIGN 3.7): every small, realistic property-breaking edit of spec/mutants.json is
applied to a scratch COPY of /repo's sources and the deductive part alone (no witness search) must reject it.
A mutant that still verifies is a weakness of the contracts and is reported; a mutant that leaves the proof UNDECIDED
(unsupported construct after the edit) is listed separately.   Usage: selftest.py [Cnn ...]"""
import concurrent.futures as cf
import json, os, shutil, subprocess, sys, tempfile

HERE = os.path.dirname(os.path.abspath(__file__))
ROOT = os.path.dirname(HERE)
SRC = os.environ.get('VERIF_REPO_SRC', '/repo/wgsl_to_wgpu/src')


def one(m):
    d = tempfile.mkdtemp(prefix='verif-mut-')
    try:
        shutil.copytree(SRC, os.path.join(d, 'src'))
        p = os.path.join(d, 'src', m['file'])
        s = open(p, encoding='utf-8').read()
        if s.count(m['find']) != 1:
            return m['id'], 'anchor-lost', 'the text to mutate occurs %d times' % s.count(m['find'])
        open(p, 'w', encoding='utf-8').write(s.replace(m['find'], m['replace']))
        r = subprocess.run([sys.executable, os.path.join(HERE, 'check.py'), m['prop'], '--src', os.path.join(d, 'src'), '--tag', 'mut-' + m['id']],
                           cwd=ROOT, stdout=subprocess.PIPE, stderr=subprocess.PIPE, text=True)
        last = [l for l in r.stdout.strip().split('\n') if l.startswith('{')]
        info = json.loads(last[-1]) if last else {}
        if r.returncode == 1:
            return m['id'], 'rejected', ', '.join(v['label'] for v in info.get('violations', []))[:200]
        if r.returncode == 2:
            return m['id'], 'undecided', '; '.join(u['reason'] for u in info.get('undecided', []))[:200]
        return m['id'], 'NOT-REJECTED', ''
    finally:
        shutil.rmtree(d, ignore_errors=True)
        shutil.rmtree(os.path.join(ROOT, 'build', 'gen', '%s-mut-%s' % (m['prop'], m['id'])), ignore_errors=True)


def run(prop=None, workers=6):
    muts = json.load(open(os.path.join(ROOT, 'spec', 'mutants.json')))
    muts = [m for m in muts if prop is None or m['prop'] == prop]
    out = {'mutants': len(muts), 'rejected': [], 'not_rejected': [], 'undecided': [], 'anchor_lost': []}
    with cf.ThreadPoolExecutor(max_workers=workers) as ex:
        for mid, st, detail in ex.map(one, muts):
            key = {'rejected': 'rejected', 'NOT-REJECTED': 'not_rejected', 'undecided': 'undecided', 'anchor-lost': 'anchor_lost'}[st]
            out[key].append(mid if st == 'NOT-REJECTED' else '%s (%s)' % (mid, detail))
    return out


if __name__ == '__main__':
    props = sys.argv[1:] or [None]
    bad = 0
    for p in props:
        r = run(p)
        print(json.dumps(r, indent=1))
        bad += len(r['not_rejected'])
    sys.exit(1 if bad else 0)
