#!/usr/bin/env python3
"""False-alarm test: apply each behaviour-preserving refactoring of /verif/benign/<id>/patch.diff to a scratch worktree of
/repo and run the check of every property whose units contain (or stub) a function of the touched files.  A VIOLATION on
such a patch is a false alarm of the machinery; UNDECIDED (exit 2) is tolerated and counted.
Usage: run_benign.py [--jobs N] [ids...]     writes benign/RESULTS.json"""
import concurrent.futures as cf
import glob, json, os, queue, re, shutil, subprocess, sys
ROOT = os.path.dirname(os.path.dirname(os.path.abspath(__file__)))
args = sys.argv[1:]
jobs = 5
if '--jobs' in args:
    k = args.index('--jobs')
    jobs = int(args[k + 1])
    del args[k:k + 2]
ids = args or sorted(os.path.basename(p) for p in glob.glob(os.path.join(ROOT, 'benign', '*-*')))
res_path = os.path.join(ROOT, 'benign', 'RESULTS.json')
results = json.load(open(res_path)) if os.path.exists(res_path) else {}
claimed = [c['property_id'] for c in json.load(open(os.path.join(ROOT, 'MANIFEST.json')))['checks']]

# file -> properties whose units extract or stub a function of that file
file_props = {}
for u in glob.glob(os.path.join(ROOT, 'spec', 'units', '*.rs')):
    t = open(u, encoding='utf-8').read()
    m = re.search(r'^//@props (.*)$', t, re.M)
    props = m.group(1).split() if m else []
    for f in set(re.findall(r'^//@(?:fn|stub|item|type)\s+(\w+\.rs)::', t, re.M)):
        file_props.setdefault(f, set()).update(props)


def touched(patch):
    return sorted(set(os.path.basename(x) for x in re.findall(r'^\+\+\+ b/(\S+)', open(patch).read(), re.M)))


workers = queue.Queue()


def setup_worker(k):
    wt = '/tmp/verif-benignwt-%d' % k
    subprocess.run(['git', '-C', '/repo', 'worktree', 'remove', '--force', wt], capture_output=True)
    shutil.rmtree(wt, ignore_errors=True)
    subprocess.run(['git', '-C', '/repo', 'worktree', 'add', '-q', '--detach', wt, 'HEAD'], check=True)
    shutil.copy('/repo/Cargo.lock', os.path.join(wt, 'Cargo.lock'))
    rp = wt + '-replay'
    shutil.rmtree(rp, ignore_errors=True)
    shutil.copytree(os.path.join(ROOT, 'vtool', 'replay'), rp, ignore=shutil.ignore_patterns('target'))
    toml = open(os.path.join(rp, 'Cargo.toml')).read().replace('/repo/wgsl_to_wgpu', wt + '/wgsl_to_wgpu')
    open(os.path.join(rp, 'Cargo.toml'), 'w').write(toml)
    out = wt + '-out'
    shutil.rmtree(out, ignore_errors=True)
    os.makedirs(out)
    return {'wt': wt, 'replay': rp, 'target': wt + '-target', 'out': out}


def one(task):
    bid, prop = task
    w = workers.get()
    try:
        patch = os.path.join(ROOT, 'benign', bid, 'patch.diff')
        a = subprocess.run(['git', '-C', w['wt'], 'apply', patch], capture_output=True, text=True)
        if a.returncode != 0:
            return bid, prop, {'exit': None, 'lines': ['patch does not apply: ' + a.stderr[:200]]}
        env = dict(os.environ, VERIF_REPO=w['wt'], VERIF_REPLAY_DIR=w['replay'], VERIF_REPLAY_TARGET=w['target'], VERIF_OUT=w['out'], VERIF_CONFORM='0')
        try:
            r = subprocess.run(['python3', 'vtool/check.py', prop], cwd=ROOT, capture_output=True, text=True, env=env)
        finally:
            subprocess.run(['git', '-C', w['wt'], 'checkout', '--', '.'], check=True)
        lines = [l[:300] for l in r.stdout.strip().split('\n')]
        print(bid, prop, {0: 'held', 1: 'FALSE ALARM', 2: 'undecided'}.get(r.returncode, r.returncode), '|', ([l for l in lines if l.startswith(('VIOLATION', 'UNDECIDED'))] or [''])[0][:200], flush=True)
        return bid, prop, {'exit': r.returncode, 'lines': lines[-4:]}
    finally:
        workers.put(w)


tasks = []
for bid in ids:
    files = touched(os.path.join(ROOT, 'benign', bid, 'patch.diff'))
    props = set()
    for f in files:
        props |= file_props.get(f, set())
    for p in claimed:
        if p in props:
            tasks.append((bid, p))
ws = [setup_worker(k) for k in range(jobs)]
for w in ws:
    workers.put(w)
try:
    with cf.ThreadPoolExecutor(max_workers=jobs) as ex:
        for bid, prop, res in ex.map(one, tasks):
            results.setdefault(bid, {})[prop] = res
finally:
    for w in ws:
        subprocess.run(['git', '-C', '/repo', 'worktree', 'remove', '--force', w['wt']], capture_output=True)
        for p in (w['wt'], w['replay'], w['target'], w['out']):
            shutil.rmtree(p, ignore_errors=True)
json.dump(results, open(res_path, 'w'), indent=1)
tot = {'held': 0, 'false_alarm': 0, 'undecided': 0, 'other': 0}
for bid, pr in results.items():
    for prop, r in pr.items():
        tot[{0: 'held', 1: 'false_alarm', 2: 'undecided'}.get(r['exit'], 'other')] += 1
print('summary:', tot)
