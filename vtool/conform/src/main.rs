//! Conformance tests for the stand-ins that the Verus units use instead of the real thing.
//!
//! 1. `quote!`: the SAME `macro_rules!` text as spec/lib/tokens.rs (copied into generated.rs on every run), with the
//!    helper functions it expands to implemented over a flat token list, is run next to the REAL `quote::quote!` on every
//!    template that occurs in /repo's non-test sources (dummy interpolands; repetitions with 0, 1 and 3 items) and the
//!    two flat token sequences are compared.  Punctuation is compared character by character (rustc's macro matcher
//!    glues `::`/`->` into one token tree, proc_macro2 keeps single characters with a spacing flag).
//! 2. `wgpu::ShaderStages` shim: bit values, `all()`, `union`, `contains`, `==`, `FromIterator` against wgpu-types.
//! 3. Debug names: `format!("{:?}")` of every naga::StorageFormat / wgpu_types::VertexFormat variant is the variant
//!    identifier, and wgpu_types::TextureFormat has a variant of the same name for every naga::StorageFormat.
//! Prints one JSON object; exit status 0 iff every comparison agrees.
#![allow(unused_macros, unused_variables, dead_code, unused_mut)]

pub mod tokens {
    /// flat token list standing for the token view `ts_view`
    #[derive(Clone, Debug, Default, PartialEq)]
    pub struct TokenStream(pub Vec<String>);

    pub fn flatten_real(ts: proc_macro2::TokenStream, out: &mut Vec<String>) {
        use proc_macro2::{Delimiter, TokenTree};
        for tt in ts {
            match tt {
                TokenTree::Group(g) => {
                    let (o, c) = match g.delimiter() {
                        Delimiter::Parenthesis => ("(", ")"),
                        Delimiter::Bracket => ("[", "]"),
                        Delimiter::Brace => ("{", "}"),
                        Delimiter::None => ("", ""),
                    };
                    if !o.is_empty() {
                        out.push(o.to_string());
                    }
                    flatten_real(g.stream(), out);
                    if !c.is_empty() {
                        out.push(c.to_string());
                    }
                }
                TokenTree::Ident(i) => out.push(i.to_string()),
                TokenTree::Punct(p) => out.push(p.as_char().to_string()),
                TokenTree::Literal(l) => out.push(l.to_string()),
            }
        }
    }

    /// the shim's template tokens are `stringify!(tt)`: split glued punctuation and lifetimes into the pieces proc_macro2 has
    pub fn norm(v: &[String]) -> Vec<String> {
        let mut out = Vec::new();
        for s in v {
            let punct = !s.is_empty() && s.chars().all(|c| c.is_ascii_punctuation() && c != '"' && c != '\'' && c != '_');
            if punct && s.chars().count() > 1 {
                for c in s.chars() {
                    out.push(c.to_string());
                }
            } else if s.starts_with('\'') && !s.ends_with('\'') {
                out.push("'".to_string());
                out.push(s[1..].to_string());
            } else {
                out.push(s.clone());
            }
        }
        out
    }

    pub trait Interp {
        fn interp(&self, s: &mut TokenStream);
    }
    // every interpoland prints what quote's own ToTokens prints for it
    macro_rules! interp_via_to_tokens { ($($t:ty),*) => { $(impl Interp for $t {
        fn interp(&self, s: &mut TokenStream) { let mut ts = proc_macro2::TokenStream::new(); ::quote::ToTokens::to_tokens(self, &mut ts); flatten_real(ts, &mut s.0); }
    })* }; }
    interp_via_to_tokens!(proc_macro2::TokenStream, proc_macro2::Ident, proc_macro2::Literal, String, str, bool, u32, i32, u64, i64, f32, f64);
    impl<T: Interp> Interp for Option<T> {
        fn interp(&self, s: &mut TokenStream) { if let Some(x) = self { x.interp(s) } }
    }
    impl<'a, T: Interp + ?Sized> Interp for &'a T {
        fn interp(&self, s: &mut TokenStream) { (**self).interp(s) }
    }

    pub mod shim {
        use super::*;
        pub fn new() -> TokenStream { TokenStream(Vec::new()) }
        pub fn t(s: &mut TokenStream, x: &'static str) { s.0.push(x.to_string()) }
        /// ts_view(final) == ts_view(old) + flat(items, pre, post, sep)
        pub fn rep_slice<T: Interp>(s: &mut TokenStream, v: &[T], pre: &TokenStream, post: &TokenStream, sep: &TokenStream) {
            for (i, item) in v.iter().enumerate() {
                if i > 0 { s.0.extend(sep.0.iter().cloned()); }
                s.0.extend(pre.0.iter().cloned());
                item.interp(s);
                s.0.extend(post.0.iter().cloned());
            }
        }
    }
    pub trait RepSrc { type Item: Interp; fn as_rep_slice(&self) -> &[Self::Item]; }
    impl<T: Interp> RepSrc for Vec<T> { type Item = T; fn as_rep_slice(&self) -> &[T] { self.as_slice() } }
    impl<'a, T: Interp> RepSrc for &'a [T] { type Item = T; fn as_rep_slice(&self) -> &[T] { self } }
}

pub struct Outcome { pub name: String, pub ok: bool, pub detail: String }

pub fn compare(name: &str, real: proc_macro2::TokenStream, shim: tokens::TokenStream, out: &mut Vec<Outcome>) {
    let mut a = Vec::new();
    tokens::flatten_real(real, &mut a);
    let b = tokens::norm(&shim.0);
    let ok = a == b;
    let detail = if ok { String::new() } else {
        let k = a.iter().zip(b.iter()).position(|(x, y)| x != y).unwrap_or(a.len().min(b.len()));
        format!("first difference at token {}: real {:?} shim {:?} (lengths {} / {})", k, a.get(k), b.get(k), a.len(), b.len())
    };
    out.push(Outcome { name: name.to_string(), ok, detail });
}

/// dummy interpolands: a token stream with a group, a path and a literal in it (so flattening of interpolated groups is exercised)
pub fn dummy(name: &str, k: usize) -> proc_macro2::TokenStream {
    let id = proc_macro2::Ident::new(&format!("dummy_{}_{}", name, k), proc_macro2::Span::call_site());
    ::quote::quote!(#id::path(1u32, [x; 2]) { f: "s" })
}
pub fn dummies(name: &str, n: usize) -> Vec<proc_macro2::TokenStream> { (0..n).map(|k| dummy(name, k)).collect() }

// the local mirror of spec/lib/wgpu_shim.rs (same constants and bodies; the generator checks the text is the shim's)
mod generated;

fn shader_stages(out: &mut Vec<Outcome>) {
    use generated::shim_stages::ShaderStages as S;
    use wgpu_types::ShaderStages as R;
    let pairs = [("NONE", S::NONE, R::NONE), ("VERTEX", S::VERTEX, R::VERTEX), ("FRAGMENT", S::FRAGMENT, R::FRAGMENT),
                 ("COMPUTE", S::COMPUTE, R::COMPUTE), ("VERTEX_FRAGMENT", S::VERTEX_FRAGMENT, R::VERTEX_FRAGMENT)];
    for (n, s, r) in pairs.iter() {
        out.push(Outcome { name: format!("stages.const.{}", n), ok: s.bits == r.bits(), detail: format!("shim {} real {}", s.bits, r.bits()) });
    }
    // the three stage bits are what the generator can produce; the shim's all() must agree with the real all() on them
    out.push(Outcome { name: "stages.all".into(), ok: S::all().bits == (R::all().bits() & 7) && (R::VERTEX | R::FRAGMENT | R::COMPUTE).bits() == 7,
                       detail: format!("shim {} real {}", S::all().bits, R::all().bits()) });
    let mut ok = true;
    for a in 0u32..8 { for b in 0u32..8 {
        let (sa, sb) = (S { bits: a }, S { bits: b });
        let (ra, rb) = (R::from_bits_truncate(a), R::from_bits_truncate(b));
        ok &= sa.union(sb).bits == ra.union(rb).bits();
        ok &= sa.contains(sb) == ra.contains(rb);
        ok &= (sa == sb) == (ra == rb);
        ok &= sa.intersection(sb).bits == ra.intersection(rb).bits();
        ok &= sa.difference(sb).bits == ra.difference(rb).bits();
        ok &= sa.intersects(sb) == ra.intersects(rb);
        ok &= sa.is_empty() == ra.is_empty() && sa.bits() == ra.bits() && S::empty().bits == R::empty().bits();
        let sc: S = vec![sa, sb].into_iter().collect();
        let rc: R = vec![ra, rb].into_iter().collect();
        ok &= sc.bits == rc.bits();
    } }
    let e: S = Vec::<S>::new().into_iter().collect();
    let re: R = Vec::<R>::new().into_iter().collect();
    ok &= e.bits == re.bits();
    out.push(Outcome { name: "stages.union-contains-eq-collect-intersection-difference-intersects-is_empty-bits-empty (all 64 pairs)".into(), ok, detail: String::new() });
}

/// The spec functions that transcribe dependency functions (spec/lib, marked `//@conform`), compiled as plain Rust from the
/// very text Verus reads, against the real functions on their whole finite domain / on one value per variant.
fn transcriptions(out: &mut Vec<Outcome>) {
    use generated::transcribed as t;
    // naga::Literal::zero over every kind x width 0..=16
    let kinds = [naga::ScalarKind::Sint, naga::ScalarKind::Uint, naga::ScalarKind::Float, naga::ScalarKind::Bool, naga::ScalarKind::AbstractInt, naga::ScalarKind::AbstractFloat];
    let mut ok = true;
    let mut n = 0;
    for kind in kinds { for width in 0u8..=16 {
        let s = naga::Scalar { kind, width };
        n += 1;
        let (a, b) = (naga::Literal::zero(s), t::lit_zero(s));
        // compare bit patterns for floats (0.0 vs -0.0)
        let same = match (a, b) { (Some(naga::Literal::F32(x)), Some(naga::Literal::F32(y))) => x.to_bits() == y.to_bits(), (Some(naga::Literal::F64(x)), Some(naga::Literal::F64(y))) => x.to_bits() == y.to_bits(), (x, y) => x == y };
        if !same { ok = false; out.push(Outcome { name: format!("transcribed.lit_zero {:?}", s), ok: false, detail: format!("naga {:?} spec {:?}", a, b) }); }
    } }
    out.push(Outcome { name: format!("transcribed.lit_zero ({} scalars)", n), ok, detail: String::new() });
    // naga::TypeInner::scalar: one value per variant that can be built without a module
    let sc = naga::Scalar { kind: naga::ScalarKind::Float, width: 4 };
    let mut types = naga::UniqueArena::new();
    let h = types.insert(naga::Type { name: None, inner: naga::TypeInner::Scalar(sc) }, naga::Span::UNDEFINED);
    let inners = vec![
        naga::TypeInner::Scalar(sc), naga::TypeInner::Scalar(naga::Scalar { kind: naga::ScalarKind::Uint, width: 8 }),
        naga::TypeInner::Vector { size: naga::VectorSize::Tri, scalar: sc },
        naga::TypeInner::Matrix { columns: naga::VectorSize::Bi, rows: naga::VectorSize::Quad, scalar: sc },
        naga::TypeInner::Atomic(sc),
        naga::TypeInner::Pointer { base: h, space: naga::AddressSpace::Function },
        naga::TypeInner::ValuePointer { size: Some(naga::VectorSize::Bi), scalar: sc, space: naga::AddressSpace::Private },
        naga::TypeInner::Array { base: h, size: naga::ArraySize::Dynamic, stride: 4 },
        naga::TypeInner::Struct { members: vec![], span: 0 },
        naga::TypeInner::Image { dim: naga::ImageDimension::D2, arrayed: false, class: naga::ImageClass::Depth { multi: false } },
        naga::TypeInner::Sampler { comparison: true },
        naga::TypeInner::AccelerationStructure, naga::TypeInner::RayQuery,
        naga::TypeInner::BindingArray { base: h, size: naga::ArraySize::Dynamic },
    ];
    let mut ok = true;
    for i in &inners {
        if i.scalar() != t::inner_scalar(i.clone()) { ok = false; out.push(Outcome { name: format!("transcribed.inner_scalar {:?}", i), ok: false, detail: format!("naga {:?} spec {:?}", i.scalar(), t::inner_scalar(i.clone())) }); }
    }
    out.push(Outcome { name: format!("transcribed.inner_scalar ({} type shapes)", inners.len()), ok, detail: String::new() });
    // naga::Statement::is_terminator
    let stmts = vec![
        naga::Statement::Break, naga::Statement::Continue, naga::Statement::Return { value: None }, naga::Statement::Kill,
        naga::Statement::Barrier(naga::Barrier::STORAGE), naga::Statement::Block(naga::Block::new()),
        naga::Statement::Loop { body: naga::Block::new(), continuing: naga::Block::new(), break_if: None },
    ];
    let mut ok = true;
    for s in &stmts {
        if s.is_terminator() != t::stmt_is_terminator(s.clone()) { ok = false; out.push(Outcome { name: format!("transcribed.is_terminator {:?}", s), ok: false, detail: String::new() }); }
    }
    out.push(Outcome { name: format!("transcribed.is_terminator ({} statements)", stmts.len()), ok, detail: String::new() });
    // StorageAccess bits and `contains`
    out.push(Outcome { name: "transcribed.StorageAccess bits".into(), ok: naga::StorageAccess::LOAD.bits() == t::SA_LOAD && naga::StorageAccess::STORE.bits() == t::SA_STORE && naga::StorageAccess::ATOMIC.bits() == t::SA_ATOMIC,
                       detail: format!("{} {} {}", naga::StorageAccess::LOAD.bits(), naga::StorageAccess::STORE.bits(), naga::StorageAccess::ATOMIC.bits()) });
    let mut ok = true;
    for a in 0u32..8 { for b in 0u32..8 {
        let (x, y) = (naga::StorageAccess::from_bits_truncate(a), naga::StorageAccess::from_bits_truncate(b));
        ok &= x.contains(y) == (x.bits() & y.bits() == y.bits());
    } }
    out.push(Outcome { name: "transcribed.StorageAccess::contains (64 pairs)".into(), ok, detail: String::new() });
    // vf_shape against wgpu-types: byte size and the variant's own name
    let mut ok = true;
    let mut named = 0;
    for f in t::ALL_VERTEX_FORMATS {
        if let Some((kind, w, n)) = t::vf_shape(f) {
            named += 1;
            let prefix = match kind { naga::ScalarKind::Uint => "Uint", naga::ScalarKind::Sint => "Sint", naga::ScalarKind::Float => "Float", _ => "?" };
            let want = if n == 1 { format!("{}{}", prefix, w * 8) } else { format!("{}{}x{}", prefix, w * 8, n) };
            if format!("{:?}", f) != want || f.size() != (w * n) as u64 { ok = false; out.push(Outcome { name: format!("transcribed.vf_shape {:?}", f), ok: false, detail: format!("spec says {} size {}", want, w * n) }); }
        }
    }
    out.push(Outcome { name: format!("transcribed.vf_shape ({} formats named by the spec)", named), ok: ok && named == 24, detail: String::new() });
    // arena model: iteration yields handle i at position i, Index returns that element
    let mut arena: naga::Arena<naga::Constant> = naga::Arena::new();
    let mut ok = true;
    let mut hs = vec![];
    let mut exprs: naga::Arena<naga::Expression> = naga::Arena::new();
    let e0 = exprs.append(naga::Expression::Literal(naga::Literal::U32(0)), naga::Span::UNDEFINED);
    for k in 0..5u32 {
        hs.push(arena.append(naga::Constant { name: Some(format!("c{k}")), ty: h, init: e0 }, naga::Span::UNDEFINED));
    }
    for (pos, (hh, c)) in arena.iter().enumerate() {
        ok &= hh.index() == pos && hh == hs[pos] && c.name == arena[hh].name && c.name.as_deref() == Some(format!("c{pos}").as_str());
    }
    ok &= arena.len() == 5 && !arena.is_empty();
    let mut ua = naga::UniqueArena::new();
    let t0 = ua.insert(naga::Type { name: None, inner: naga::TypeInner::Scalar(sc) }, naga::Span::UNDEFINED);
    let t1 = ua.insert(naga::Type { name: Some("S".into()), inner: naga::TypeInner::Struct { members: vec![], span: 0 } }, naga::Span::UNDEFINED);
    let t0b = ua.insert(naga::Type { name: None, inner: naga::TypeInner::Scalar(sc) }, naga::Span::UNDEFINED);
    ok &= t0 == t0b && t0.index() == 0 && t1.index() == 1 && ua.iter().enumerate().all(|(p, (hh, ty))| hh.index() == p && ua[hh] == *ty);
    out.push(Outcome { name: "model.arena: iteration order = handle index, Index returns that element (Arena, UniqueArena)".into(), ok, detail: String::new() });
}

fn main() {
    let mut out = Vec::new();
    generated::templates(&mut out);
    let n_templates = out.len();
    shader_stages(&mut out);
    generated::debug_names(&mut out);
    transcriptions(&mut out);
    let bad: Vec<&Outcome> = out.iter().filter(|o| !o.ok).collect();
    let esc = |s: &str| s.replace('\\', "\\\\").replace('"', "\\\"");
    println!("{{\"comparisons\": {}, \"template_comparisons\": {}, \"failed\": [{}]}}", out.len(), n_templates,
             bad.iter().map(|o| format!("{{\"name\": \"{}\", \"detail\": \"{}\"}}", esc(&o.name), esc(&o.detail))).collect::<Vec<_>>().join(", "));
    std::process::exit(if bad.is_empty() { 0 } else { 1 });
}
