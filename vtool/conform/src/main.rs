//! Conformance tests for the stand-ins that the Verus units use instead of the real thing.
//!
//! 1. `quote!`: the SAME `macro_rules!` text as spec/lib/tokens.rs (copied into generated.rs on every run), with the
//!    helper functions it expands to implemented over a flat token list, is run next to the REAL `quote::quote!` on every
//!    template that occurs in /repo's non-test sources (dummy interpolands; repetitions with 0, 1 and 3 items) and the
//!    two flat token sequences are compared.  Punctuation is compared character by character (rustc's macro matcher
//!    glues `::`/`->` into one token tree, proc_macro2 keeps single characters with a spacing flag).
//! 2. `wgpu::ShaderStages` shim: bit values, `all()`, `union`, `contains`, `==`, `FromIterator` against wgpu-types.
//! 3. Debug names: `format!("{:?}")` of every naga::StorageFormat / wgpu_types::VertexFormat variant is the variant
//!    identifier, and wgpu_types::TextureFormat has a variant of the same name for every naga::StorageFormat.
//! Prints one JSON object; exit status 0 iff every comparison agrees.
#![allow(unused_macros, unused_variables, dead_code, unused_mut)]

pub mod tokens {
    /// flat token list standing for the token view `ts_view`
    #[derive(Clone, Debug, Default, PartialEq)]
    pub struct TokenStream(pub Vec<String>);

    pub fn flatten_real(ts: proc_macro2::TokenStream, out: &mut Vec<String>) {
        use proc_macro2::{Delimiter, TokenTree};
        for tt in ts {
            match tt {
                TokenTree::Group(g) => {
                    let (o, c) = match g.delimiter() {
                        Delimiter::Parenthesis => ("(", ")"),
                        Delimiter::Bracket => ("[", "]"),
                        Delimiter::Brace => ("{", "}"),
                        Delimiter::None => ("", ""),
                    };
                    if !o.is_empty() {
                        out.push(o.to_string());
                    }
                    flatten_real(g.stream(), out);
                    if !c.is_empty() {
                        out.push(c.to_string());
                    }
                }
                TokenTree::Ident(i) => out.push(i.to_string()),
                TokenTree::Punct(p) => out.push(p.as_char().to_string()),
                TokenTree::Literal(l) => out.push(l.to_string()),
            }
        }
    }

    /// the shim's template tokens are `stringify!(tt)`: split glued punctuation and lifetimes into the pieces proc_macro2 has
    pub fn norm(v: &[String]) -> Vec<String> {
        let mut out = Vec::new();
        for s in v {
            let punct = !s.is_empty() && s.chars().all(|c| c.is_ascii_punctuation() && c != '"' && c != '\'' && c != '_');
            if punct && s.chars().count() > 1 {
                for c in s.chars() {
                    out.push(c.to_string());
                }
            } else if s.starts_with('\'') && !s.ends_with('\'') {
                out.push("'".to_string());
                out.push(s[1..].to_string());
            } else {
                out.push(s.clone());
            }
        }
        out
    }

    pub trait Interp {
        fn interp(&self, s: &mut TokenStream);
    }
    // every interpoland prints what quote's own ToTokens prints for it
    macro_rules! interp_via_to_tokens { ($($t:ty),*) => { $(impl Interp for $t {
        fn interp(&self, s: &mut TokenStream) { let mut ts = proc_macro2::TokenStream::new(); ::quote::ToTokens::to_tokens(self, &mut ts); flatten_real(ts, &mut s.0); }
    })* }; }
    interp_via_to_tokens!(proc_macro2::TokenStream, proc_macro2::Ident, proc_macro2::Literal, String, str, bool, u32, i32, u64, i64, f32, f64);
    impl<T: Interp> Interp for Option<T> {
        fn interp(&self, s: &mut TokenStream) { if let Some(x) = self { x.interp(s) } }
    }
    impl<'a, T: Interp + ?Sized> Interp for &'a T {
        fn interp(&self, s: &mut TokenStream) { (**self).interp(s) }
    }

    pub mod shim {
        use super::*;
        pub fn new() -> TokenStream { TokenStream(Vec::new()) }
        pub fn t(s: &mut TokenStream, x: &'static str) { s.0.push(x.to_string()) }
        /// ts_view(final) == ts_view(old) + flat(items, pre, post, sep)
        pub fn rep_slice<T: Interp>(s: &mut TokenStream, v: &[T], pre: &TokenStream, post: &TokenStream, sep: &TokenStream) {
            for (i, item) in v.iter().enumerate() {
                if i > 0 { s.0.extend(sep.0.iter().cloned()); }
                s.0.extend(pre.0.iter().cloned());
                item.interp(s);
                s.0.extend(post.0.iter().cloned());
            }
        }
    }
    pub trait RepSrc { type Item: Interp; fn as_rep_slice(&self) -> &[Self::Item]; }
    impl<T: Interp> RepSrc for Vec<T> { type Item = T; fn as_rep_slice(&self) -> &[T] { self.as_slice() } }
    impl<'a, T: Interp> RepSrc for &'a [T] { type Item = T; fn as_rep_slice(&self) -> &[T] { self } }
}

pub struct Outcome { pub name: String, pub ok: bool, pub detail: String }

pub fn compare(name: &str, real: proc_macro2::TokenStream, shim: tokens::TokenStream, out: &mut Vec<Outcome>) {
    let mut a = Vec::new();
    tokens::flatten_real(real, &mut a);
    let b = tokens::norm(&shim.0);
    let ok = a == b;
    let detail = if ok { String::new() } else {
        let k = a.iter().zip(b.iter()).position(|(x, y)| x != y).unwrap_or(a.len().min(b.len()));
        format!("first difference at token {}: real {:?} shim {:?} (lengths {} / {})", k, a.get(k), b.get(k), a.len(), b.len())
    };
    out.push(Outcome { name: name.to_string(), ok, detail });
}

/// dummy interpolands: a token stream with a group, a path and a literal in it (so flattening of interpolated groups is exercised)
pub fn dummy(name: &str, k: usize) -> proc_macro2::TokenStream {
    let id = proc_macro2::Ident::new(&format!("dummy_{}_{}", name, k), proc_macro2::Span::call_site());
    ::quote::quote!(#id::path(1u32, [x; 2]) { f: "s" })
}
pub fn dummies(name: &str, n: usize) -> Vec<proc_macro2::TokenStream> { (0..n).map(|k| dummy(name, k)).collect() }

// the local mirror of spec/lib/wgpu_shim.rs (same constants and bodies; the generator checks the text is the shim's)
mod generated;

fn shader_stages(out: &mut Vec<Outcome>) {
    use generated::shim_stages::ShaderStages as S;
    use wgpu_types::ShaderStages as R;
    let pairs = [("NONE", S::NONE, R::NONE), ("VERTEX", S::VERTEX, R::VERTEX), ("FRAGMENT", S::FRAGMENT, R::FRAGMENT),
                 ("COMPUTE", S::COMPUTE, R::COMPUTE), ("VERTEX_FRAGMENT", S::VERTEX_FRAGMENT, R::VERTEX_FRAGMENT)];
    for (n, s, r) in pairs.iter() {
        out.push(Outcome { name: format!("stages.const.{}", n), ok: s.bits == r.bits(), detail: format!("shim {} real {}", s.bits, r.bits()) });
    }
    // the three stage bits are what the generator can produce; the shim's all() must agree with the real all() on them
    out.push(Outcome { name: "stages.all".into(), ok: S::all().bits == (R::all().bits() & 7) && (R::VERTEX | R::FRAGMENT | R::COMPUTE).bits() == 7,
                       detail: format!("shim {} real {}", S::all().bits, R::all().bits()) });
    let mut ok = true;
    for a in 0u32..8 { for b in 0u32..8 {
        let (sa, sb) = (S { bits: a }, S { bits: b });
        let (ra, rb) = (R::from_bits_truncate(a), R::from_bits_truncate(b));
        ok &= sa.union(sb).bits == ra.union(rb).bits();
        ok &= sa.contains(sb) == ra.contains(rb);
        ok &= (sa == sb) == (ra == rb);
        let sc: S = vec![sa, sb].into_iter().collect();
        let rc: R = vec![ra, rb].into_iter().collect();
        ok &= sc.bits == rc.bits();
    } }
    let e: S = Vec::<S>::new().into_iter().collect();
    let re: R = Vec::<R>::new().into_iter().collect();
    ok &= e.bits == re.bits();
    out.push(Outcome { name: "stages.union-contains-eq-collect (all 64 pairs)".into(), ok, detail: String::new() });
}

fn main() {
    let mut out = Vec::new();
    generated::templates(&mut out);
    let n_templates = out.len();
    shader_stages(&mut out);
    generated::debug_names(&mut out);
    let bad: Vec<&Outcome> = out.iter().filter(|o| !o.ok).collect();
    let esc = |s: &str| s.replace('\\', "\\\\").replace('"', "\\\"");
    println!("{{\"comparisons\": {}, \"template_comparisons\": {}, \"failed\": [{}]}}", out.len(), n_templates,
             bad.iter().map(|o| format!("{{\"name\": \"{}\", \"detail\": \"{}\"}}", esc(&o.name), esc(&o.detail))).collect::<Vec<_>>().join(", "));
    std::process::exit(if bad.is_empty() { 0 } else { 1 });
}
