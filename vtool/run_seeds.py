#!/usr/bin/env python3
"""Apply each confirmed seeded change to /repo, run the check of the property it breaks, undo it.
Writes seeded/RESULTS.json and prints a table.  Usage: run_seeds.py [ids...]"""
import json, os, subprocess, sys, glob
ROOT = os.path.dirname(os.path.dirname(os.path.abspath(__file__)))
claimed = {c['property_id'] for c in json.load(open(os.path.join(ROOT, 'MANIFEST.json')))['checks']}
ids = sys.argv[1:] or sorted(os.path.basename(p) for p in glob.glob(os.path.join(ROOT, 'seeded', 'C*')))
res_path = os.path.join(ROOT, 'seeded', 'RESULTS.json')
results = json.load(open(res_path)) if os.path.exists(res_path) else {}
assert subprocess.run(['git', '-C', '/repo', 'status', '--porcelain', '--untracked-files=no'], capture_output=True, text=True).stdout.strip() == '', '/repo not clean'
for sid in ids:
    d = os.path.join(ROOT, 'seeded', sid)
    prop = sid.split('-')[0]
    if prop not in claimed:
        results[sid] = {'property': prop, 'outcome': 'property-not-claimed'}
        print(sid, 'property not claimed'); continue
    subprocess.run(['git', '-C', '/repo', 'apply', os.path.join(d, 'patch.diff')], check=True)
    try:
        r = subprocess.run(['python3', 'vtool/check.py', prop], cwd=ROOT, capture_output=True, text=True)
    finally:
        subprocess.run(['git', '-C', '/repo', 'checkout', '--', '.'], check=True)
    lines = [l[:260] for l in r.stdout.strip().split('\n')]
    outcome = {0: 'MISSED (exit 0)', 1: 'DETECTED (VIOLATION)', 2: 'UNDECIDED (exit 2)'}.get(r.returncode, 'exit %d' % r.returncode)
    results[sid] = {'property': prop, 'outcome': outcome, 'lines': lines[-4:]}
    print(sid, outcome, '|', [l for l in lines if l.startswith('VIOLATION') or l.startswith('UNDECIDED')][:1])
json.dump(results, open(res_path, 'w'), indent=1)
