#!/usr/bin/env python3
"""Apply each confirmed seeded change, run the check of the property it breaks, undo it.
Writes seeded/RESULTS.json and prints a table.  Usage: run_seeds.py [--jobs N] [ids...]

--jobs 1 (default when ids are given without --jobs): the change is applied to /repo itself (git apply / checkout).
--jobs N: N workers, each with its own scratch git worktree of /repo under /tmp, its own copy of the witness-search crate
          (path dependency pointed at that worktree) and its own output directory; /repo is never touched.  The check that
          runs is the same vtool/check.py, relocated through VERIF_REPO / VERIF_REPLAY_DIR / VERIF_REPLAY_TARGET / VERIF_OUT.
          Everything under /tmp is removed at the end."""
import concurrent.futures as cf
import json, os, queue, shutil, subprocess, sys, glob
ROOT = os.path.dirname(os.path.dirname(os.path.abspath(__file__)))
args = sys.argv[1:]
jobs = 1
if '--jobs' in args:
    k = args.index('--jobs')
    jobs = int(args[k + 1])
    del args[k:k + 2]
claimed = {c['property_id'] for c in json.load(open(os.path.join(ROOT, 'MANIFEST.json')))['checks']}
ids = args or sorted(os.path.basename(p) for p in glob.glob(os.path.join(ROOT, 'seeded', 'C*')) if os.path.isdir(p))
res_path = os.path.join(ROOT, 'seeded', 'RESULTS.json')
results = json.load(open(res_path)) if os.path.exists(res_path) else {}
assert subprocess.run(['git', '-C', '/repo', 'status', '--porcelain', '--untracked-files=no'], capture_output=True, text=True).stdout.strip() == '', '/repo not clean'


def summarise(sid, prop, r):
    lines = [l[:260] for l in r.stdout.strip().split('\n')]
    outcome = {0: 'MISSED (exit 0)', 1: 'DETECTED (VIOLATION)', 2: 'UNDECIDED (exit 2)'}.get(r.returncode, 'exit %d' % r.returncode)
    viol = [l for l in lines if l.startswith('VIOLATION')]
    first = viol[0].split('obligation=')[-1].split()[0] if viol and 'obligation=' in viol[0] else ''
    mode = 'witness' if 'witness' in first else ('scan' if 'scan' in first else ('kani' if 'kani' in first else ('deductive' if first else '')))
    print(sid, outcome, mode, '|', (viol or [l for l in lines if l.startswith('UNDECIDED')])[:1], flush=True)
    return {'property': prop, 'outcome': outcome, 'first_obligation': first, 'decided_by': mode, 'lines': lines[-4:]}


def in_repo(sid):
    d = os.path.join(ROOT, 'seeded', sid)
    prop = sid.split('-')[0]
    subprocess.run(['git', '-C', '/repo', 'apply', os.path.join(d, 'patch.diff')], check=True)
    try:
        r = subprocess.run(['python3', 'vtool/check.py', prop], cwd=ROOT, capture_output=True, text=True)
    finally:
        subprocess.run(['git', '-C', '/repo', 'checkout', '--', '.'], check=True)
    return summarise(sid, prop, r)


workers = queue.Queue()


def setup_worker(k):
    wt = '/tmp/verif-seedwt-%d' % k
    subprocess.run(['git', '-C', '/repo', 'worktree', 'remove', '--force', wt], capture_output=True)
    shutil.rmtree(wt, ignore_errors=True)
    subprocess.run(['git', '-C', '/repo', 'worktree', 'add', '-q', '--detach', wt, 'HEAD'], check=True)
    shutil.copy('/repo/Cargo.lock', os.path.join(wt, 'Cargo.lock'))
    rp = wt + '-replay'
    shutil.rmtree(rp, ignore_errors=True)
    shutil.copytree(os.path.join(ROOT, 'vtool', 'replay'), rp, ignore=shutil.ignore_patterns('target'))
    toml = open(os.path.join(rp, 'Cargo.toml')).read().replace('/repo/wgsl_to_wgpu', wt + '/wgsl_to_wgpu')
    open(os.path.join(rp, 'Cargo.toml'), 'w').write(toml)
    out = wt + '-out'
    shutil.rmtree(out, ignore_errors=True)
    os.makedirs(out)
    return {'wt': wt, 'replay': rp, 'target': wt + '-target', 'out': out}


def in_worktree(sid):
    w = workers.get()
    try:
        d = os.path.join(ROOT, 'seeded', sid)
        prop = sid.split('-')[0]
        subprocess.run(['git', '-C', w['wt'], 'apply', os.path.join(d, 'patch.diff')], check=True)
        env = dict(os.environ, VERIF_REPO=w['wt'], VERIF_REPLAY_DIR=w['replay'], VERIF_REPLAY_TARGET=w['target'], VERIF_OUT=w['out'], VERIF_CONFORM='0')
        try:
            r = subprocess.run(['python3', 'vtool/check.py', prop], cwd=ROOT, capture_output=True, text=True, env=env)
        finally:
            subprocess.run(['git', '-C', w['wt'], 'checkout', '--', '.'], check=True)
        return summarise(sid, prop, r)
    finally:
        workers.put(w)


todo = []
for sid in ids:
    prop = sid.split('-')[0]
    if prop not in claimed:
        results[sid] = {'property': prop, 'outcome': 'property-not-claimed'}
        print(sid, 'property not claimed')
    else:
        todo.append(sid)
if jobs <= 1:
    for sid in todo:
        results[sid] = in_repo(sid)
else:
    ws = [setup_worker(k) for k in range(jobs)]
    for w in ws:
        workers.put(w)
    try:
        with cf.ThreadPoolExecutor(max_workers=jobs) as ex:
            for sid, res in zip(todo, ex.map(in_worktree, todo)):
                results[sid] = res
    finally:
        for w in ws:
            subprocess.run(['git', '-C', '/repo', 'worktree', 'remove', '--force', w['wt']], capture_output=True)
            for p in (w['wt'], w['replay'], w['target'], w['out']):
                shutil.rmtree(p, ignore_errors=True)
json.dump(results, open(res_path, 'w'), indent=1)
modes = {}
for v in results.values():
    modes[v.get('decided_by') or v['outcome']] = modes.get(v.get('decided_by') or v['outcome'], 0) + 1
print('summary:', modes)
