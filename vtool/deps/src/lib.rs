// placeholder: only the dependency rlibs matter
