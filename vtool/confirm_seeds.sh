#!/bin/bash
# Confirm candidate seeded changes: for each /tmp/wt/<P>/SEED/<k>: (1) clean tree + demo: all tests pass;
# (2) patched tree: existing tests pass, demo fails.  Confirmed ones are copied to /verif/seeded/<P>-<k>/.
set -u
WT=${SEEDCHECK_WT:-/tmp/seedcheck}
export CARGO_TARGET_DIR=${WT}-target
[ -d $WT ] || git -C /repo worktree add -q --detach $WT HEAD
cp /repo/Cargo.lock $WT/Cargo.lock
for d in "$@"; do
  prop=$(echo $d | sed 's|.*/\(C[0-9]*\)/SEED/.*|\1|'); k=$(basename $d); P=$prop-$((k + ${SEED_OFFSET:-0}))
  git -C $WT checkout -q -- . ; rm -f $WT/wgsl_to_wgpu/tests/demo.rs
  cp $d/demo.rs $WT/wgsl_to_wgpu/tests/demo.rs
  (cd $WT && cargo test -p wgsl_to_wgpu --offline --no-fail-fast > ${WT}-log-$P-clean.log 2>&1); c1=$?
  clean_fail=$(grep -c "^test result: FAILED" ${WT}-log-$P-clean.log)
  if ! git -C $WT apply $d/patch.diff 2>${WT}-log-$P-apply.log; then echo "$P APPLY-FAILED"; continue; fi
  (cd $WT && cargo test -p wgsl_to_wgpu --offline --no-fail-fast > ${WT}-log-$P-patched.log 2>&1)
  # per-binary results in order: lib, create_shader_module, demo, doc
  res=$(grep "^test result:" ${WT}-log-$P-patched.log | awk '{print $3}' | tr '\n' ' ')
  demo_failed=$(awk '/Running tests\/demo.rs/{f=1} f&&/^test result:/{print $3; exit}' ${WT}-log-$P-patched.log)
  others_failed=$(awk '/Running tests\/demo.rs/{f=1;next} /Running|Doc-tests/{f=0} !f&&/^test result: FAILED/{n++} END{print n+0}' ${WT}-log-$P-patched.log)
  if [ "$clean_fail" = "0" ] && [ "$c1" = "0" ] && [ "$demo_failed" = "FAILED." ] && [ "$others_failed" = "0" ]; then
    mkdir -p /verif/seeded/$P && cp $d/patch.diff $d/demo.rs $d/meta.json /verif/seeded/$P/ && echo "$P CONFIRMED ($res)"
  else
    echo "$P NOT-CONFIRMED clean_rc=$c1 clean_fail=$clean_fail demo=$demo_failed others_failed=$others_failed ($res)"
  fi
  git -C $WT checkout -q -- . ; rm -f $WT/wgsl_to_wgpu/tests/demo.rs
done
