#!/usr/bin/env python3
"""Automatic mutation sweep over every function under contract (a guard against weak contracts, DESIGN 9.12).

Token-level mutants of the REAL function text (outside `quote!` templates unless stated): relational / boolean operator
swaps, `true`<->`false`, integer literal +1, deletion of an expression statement, curated identifier swaps
(group<->binding, accept<->reject, body<->continuing, ...), and inside templates the swap of two interpolated variables.
Each mutant is applied to a scratch copy of the sources and the deductive part alone (`check.py <P> --src .. --only-unit U`)
must reject it.  Survivors are printed for triage: each is either an equivalent mutant or a hole in a contract.

  mutsweep.py [--jobs N] [--limit N] [--fn NAME] [--out FILE]
"""
import concurrent.futures as cf
import glob, json, os, random, re, shutil, subprocess, sys, tempfile
HERE = os.path.dirname(os.path.abspath(__file__))
ROOT = os.path.dirname(HERE)
sys.path.insert(0, HERE)
from rslex import lex, match_close, find_item  # noqa: E402
SRC = os.environ.get('VERIF_REPO_SRC', '/repo/wgsl_to_wgpu/src')

SWAPS = [('group', 'binding'), ('accept', 'reject'), ('body', 'continuing'), ('columns', 'rows'), ('Vertex', 'Fragment'), ('Fragment', 'Compute'),
         ('VERTEX', 'FRAGMENT'), ('FRAGMENT', 'COMPUTE'), ('LOAD', 'STORE'), ('is_read', 'is_write'), ('is_some', 'is_none'), ('any', 'all'),
         ('Bi', 'Tri'), ('Tri', 'Quad'), ('F32', 'F64'), ('U32', 'I32'), ('U64', 'I64'), ('Uint', 'Sint'), ('Float', 'Sint'), ('min', 'max'),
         ('Uniform', 'Storage'), ('Some', 'None'), ('first', 'last'), ('D2', 'D3'), ('D2', 'Cube'), ('ReadOnly', 'WriteOnly'), ('ReadWrite', 'ReadOnly'),
         ('Sint32', 'Uint32'), ('Float32', 'Float64'), ('Float32x2', 'Float32x3'), ('binding_index', 'group_no'), ('offset', 'span'), ('name', 'ty')]


def functions():
    """(file, fn name, unit, props) for every //@fn block of every unit."""
    out = []
    for u in sorted(glob.glob(os.path.join(ROOT, 'spec', 'units', '*.rs'))):
        t = open(u, encoding='utf-8').read()
        m = re.search(r'^//@props (.*)$', t, re.M)
        uprops = m.group(1).split() if m else []
        for m in re.finditer(r'^//@fn (\w+\.rs)::(\w+)(?:\s+props=(\S+))?', t, re.M):
            props = m.group(3).split(',') if m.group(3) else uprops
            out.append((m.group(1), m.group(2), os.path.splitext(os.path.basename(u))[0], props))
    return out


def mutants_of(src, span):
    s0, e0 = span
    ts = [t for t in lex(src) if s0 <= t[2] < e0]
    # template regions
    tpl = set()
    k = 0
    while k + 2 < len(ts):
        if ts[k][1] in ('quote', 'panic', 'todo', 'format', 'unreachable', 'assert', 'matches') and ts[k + 1][1] == '!' and ts[k + 2][1] in '([{':
            e = match_close(ts, k + 2)
            if ts[k][1] != 'matches':
                for q in range(k + 2, e + 1):
                    tpl.add(q)
            if ts[k][1] == 'quote':
                # swap two distinct interpolated variables of one template
                vs = [q for q in range(k + 3, e) if ts[q - 1][1] == '#' and ts[q][0] == 'ident']
                names = []
                for q in vs:
                    if ts[q][1] not in names:
                        names.append(ts[q][1])
                if len(names) >= 2:
                    a, b = names[0], names[1]
                    for q in vs:
                        if ts[q][1] == a:
                            yield ('tpl-var %s->%s' % (a, b), ts[q][2], ts[q][3], b)
                            break
            k = e + 1
            continue
        k += 1
    body_start = next((i for i, t in enumerate(ts) if t[1] == '{' and i not in tpl), 0)
    for i, t in enumerate(ts):
        if i in tpl or i < body_start:
            continue
        x = t[1]
        nx = ts[i + 1][1] if i + 1 < len(ts) else ''
        pv = ts[i - 1][1] if i else ''
        adj = i + 1 < len(ts) and ts[i + 1][2] == t[3]  # next token glued
        if x == '=' and nx == '=' and adj and pv not in '=!<>':
            yield ('== -> !=', t[2], ts[i + 1][3], '!=')
        elif x == '!' and nx == '=' and adj:
            yield ('!= -> ==', t[2], ts[i + 1][3], '==')
        elif x == '<' and nx == '=' and adj:
            yield ('<= -> <', t[2], ts[i + 1][3], '<')
        elif x == '>' and nx == '=' and adj and pv != '=':
            yield ('>= -> >', t[2], ts[i + 1][3], '>')
        elif x == '&' and nx == '&' and adj:
            yield ('&& -> ||', t[2], ts[i + 1][3], '||')
        elif x == '|' and nx == '|' and adj and pv not in ('(', ',', '=', '{') and ts[i + 2][1] != '{' if i + 2 < len(ts) else False:
            yield ('|| -> &&', t[2], ts[i + 1][3], '&&')
        elif x == '!' and nx != '=' and ts[i + 1][0] == 'ident' and pv not in (')', ']') and ts[i - 1][0] != 'ident':
            yield ('drop !', t[2], t[3], '')
        elif x in ('true', 'false') and t[0] == 'ident':
            yield ('%s flipped' % x, t[2], t[3], 'false' if x == 'true' else 'true')
        elif t[0] == 'num' and re.fullmatch(r'\d+', x) and pv not in ('.',):
            yield ('%s -> %d' % (x, int(x) + 1), t[2], t[3], str(int(x) + 1))
        elif x == '+' and nx not in ('=',) and pv not in ('(', ',', '='):
            yield ('+ -> -', t[2], t[3], '-')
        elif t[0] == 'ident':
            for a, b in SWAPS:
                if x == a:
                    yield ('%s -> %s' % (a, b), t[2], t[3], b)
                elif x == b:
                    yield ('%s -> %s' % (b, a), t[2], t[3], a)
    # delete expression statements `callee(..);` / `recv.method(..);` that start a statement
    for i, t in enumerate(ts):
        if i in tpl or i <= body_start:
            continue
        if ts[i - 1][1] in ('{', ';', '}') and t[0] == 'ident' and t[1] not in ('let', 'if', 'for', 'while', 'loop', 'match', 'return', 'use', 'fn', 'break', 'continue', 'else'):
            j = i
            ok = False
            while j < len(ts):
                if ts[j][1] in '([{':
                    j = match_close(ts, j)
                elif ts[j][1] == ';':
                    ok = True
                    break
                elif ts[j][1] in ('}', '=>') or (ts[j][1] == '=' and ts[j + 1][1] != '=' and ts[j - 1][1] not in '=!<>+-|&*'):
                    break
                j += 1
            if ok and any(ts[q][1] == '(' for q in range(i, j)):
                yield ('delete stmt `%s`' % src[t[2]:ts[j][3]][:50].replace('\n', ' '), t[2], ts[j][3], '')


def run_one(job):
    mid, file, fn, unit, prop, desc, a, b, rep = job
    d = tempfile.mkdtemp(prefix='verif-msw-')
    tag = 'msw%d' % mid
    try:
        shutil.copytree(SRC, os.path.join(d, 'src'))
        p = os.path.join(d, 'src', file)
        s = open(p, encoding='utf-8').read()
        open(p, 'w', encoding='utf-8').write(s[:a] + rep + s[b:])
        r = subprocess.run([sys.executable, os.path.join(HERE, 'check.py'), prop, '--src', os.path.join(d, 'src'), '--tag', tag, '--only-unit', unit],
                           cwd=ROOT, stdout=subprocess.PIPE, stderr=subprocess.PIPE, text=True, env=dict(os.environ, VERIF_CONFORM='0', VERIF_ANY_PROP='1'))
        last = [l for l in r.stdout.strip().split('\n') if l.startswith('{')]
        info = json.loads(last[-1]) if last else {}
        st = {1: 'rejected', 2: 'undecided', 0: 'SURVIVED'}.get(r.returncode, 'error')
        det = ', '.join(v['label'] for v in info.get('violations', [])) if st == 'rejected' else '; '.join('%s: %s' % (u['reason'], u.get('detail', '')[:80]) for u in info.get('undecided', []))
        line = src_line(s, a)
        return {'id': mid, 'file': file, 'fn': fn, 'unit': unit, 'prop': prop, 'mutation': desc, 'line': line, 'status': st, 'detail': det[:240],
                'context': s[max(0, s.rfind('\n', 0, a) + 1):s.find('\n', b)].strip()[:160]}
    finally:
        shutil.rmtree(d, ignore_errors=True)
        shutil.rmtree(os.path.join(ROOT, 'build', 'gen', '%s-%s' % (prop, tag)), ignore_errors=True)


def src_line(s, off):
    return s.count('\n', 0, off) + 1


# survivors of the full sweep that were triaged as equivalent or outside the contracts' domain (DESIGN 9.12); (fn, mutation prefix)
TRIAGED = [('buffer_binding_type', 'LOAD -> STORE'), ('pretty_print_rustfmt', 'false flipped'), ('struct_members', 'delete stmt `panic!'), ('rust_struct', 'delete stmt `panic!')]


def run(prop, limit=60, seed=0, jobs=6):
    """Sampled sweep over the functions of the units that serve `prop` (thorough tier; informational, never deciding)."""
    todo = []
    mid = 0
    for file, fn, unit, props in functions():
        if prop not in props:
            continue
        src = open(os.path.join(SRC, file), encoding='utf-8').read()
        span = find_item(src, 'fn', fn)
        if not span:
            continue
        seen = set()
        for desc, a, b, rep in mutants_of(src, span):
            if (a, b, rep) in seen:
                continue
            seen.add((a, b, rep))
            mid += 1
            todo.append((mid, file, fn, unit, prop, desc, a, b, rep))
    total = len(todo)
    random.Random(seed).shuffle(todo)
    todo = todo[:limit]
    res = []
    with cf.ThreadPoolExecutor(max_workers=jobs) as ex:
        res = list(ex.map(run_one, todo))
    tot = {}
    for r in res:
        tot[r['status']] = tot.get(r['status'], 0) + 1
    surv = [r for r in res if r['status'] == 'SURVIVED']
    new = [r for r in surv if not any(r['fn'] == f and r['mutation'].startswith(m) for f, m in TRIAGED)]
    return {'mutants_of_these_functions': total, 'sampled': len(todo), 'seed': seed, 'rejected_by_a_named_obligation': tot.get('rejected', 0),
            'do_not_compile_or_unsupported': tot.get('undecided', 0), 'survived': len(surv),
            'survivors_not_triaged_before': ['%s::%s:%d %s' % (r['file'], r['fn'], r['line'], r['mutation']) for r in new],
            'note': 'token-level mutants of the functions under contract, deductive part only; informational (a survivor is an equivalent mutant or a hole in a contract), never deciding'}


def main():
    args = sys.argv[1:]
    jobs = int(args[args.index('--jobs') + 1]) if '--jobs' in args else 8
    limit = int(args[args.index('--limit') + 1]) if '--limit' in args else None
    only = args[args.index('--fn') + 1] if '--fn' in args else None
    outp = args[args.index('--out') + 1] if '--out' in args else os.path.join(ROOT, 'build', 'mutsweep.json')
    todo = []
    mid = 0
    for file, fn, unit, props in functions():
        if only and fn != only:
            continue
        src = open(os.path.join(SRC, file), encoding='utf-8').read()
        span = find_item(src, 'fn', fn)
        if not span or not props:
            continue
        seen = set()
        for desc, a, b, rep in mutants_of(src, span):
            if (a, b, rep) in seen:
                continue
            seen.add((a, b, rep))
            mid += 1
            todo.append((mid, file, fn, unit, props[0], desc, a, b, rep))
    if limit:
        random.Random(1).shuffle(todo)
        todo = todo[:limit]
    print('%d mutants' % len(todo), flush=True)
    res = []
    with cf.ThreadPoolExecutor(max_workers=jobs) as ex:
        for r in ex.map(run_one, todo):
            res.append(r)
            if r['status'] != 'rejected':
                print('%-9s %s::%s:%d [%s] %s | %s | %s' % (r['status'], r['file'], r['fn'], r['line'], r['prop'], r['mutation'], r['context'][:90], r['detail'][:120]), flush=True)
    tot = {}
    for r in res:
        tot[r['status']] = tot.get(r['status'], 0) + 1
    json.dump({'summary': tot, 'mutants': res}, open(outp, 'w'), indent=1)
    print('summary:', tot)


if __name__ == '__main__':
    main()
