"""A small Rust lexer and item finder (no regex guessing of bodies).

Tokens are (kind, text, start, end); kinds: str, char, lifetime, ident, num, punct.
Whitespace and comments are trivia: they are never compared, only carried along for printing.
Every punctuation character is its own token (`->` is `-`,`>`), which is all the differ needs.
"""
import re

_RAW = re.compile(r'b?r(#*)"')
_CHAR = re.compile(r"'(\\.[^']*|[^'\\])'")
_LIFE = re.compile(r"'[A-Za-z_][A-Za-z0-9_]*")
_IDENT = re.compile(r'[A-Za-z_][A-Za-z0-9_]*')
_NUM = re.compile(r'[0-9][A-Za-z0-9_]*(\.[0-9][A-Za-z0-9_]*)?')


def lex(src):
    """Return the list of non-trivia tokens of `src`."""
    out = []
    i = 0
    n = len(src)
    while i < n:
        c = src[i]
        if c.isspace():
            i += 1
        elif src.startswith('//', i):
            j = src.find('\n', i)
            i = n if j < 0 else j
        elif src.startswith('/*', i):
            depth = 1
            j = i + 2
            while j < n and depth:
                if src.startswith('/*', j):
                    depth += 1
                    j += 2
                elif src.startswith('*/', j):
                    depth -= 1
                    j += 2
                else:
                    j += 1
            i = j
        elif c == '"' or (c in 'rb' and _RAW.match(src, i)) or (c == 'b' and src.startswith('b"', i)):
            m = _RAW.match(src, i)
            if m:
                end = '"' + m.group(1)
                j = src.find(end, m.end())
                if j < 0:
                    raise ValueError('unterminated raw string at %d' % i)
                j += len(end)
            else:
                j = i + (2 if c == 'b' else 1)
                while j < n and src[j] != '"':
                    j += 2 if src[j] == '\\' else 1
                j += 1
            out.append(('str', src[i:j], i, j))
            i = j
        elif c == "'":
            m = _CHAR.match(src, i)
            if m:
                out.append(('char', m.group(0), i, m.end()))
                i = m.end()
            else:
                m = _LIFE.match(src, i)
                if not m:
                    out.append(('punct', c, i, i + 1))
                    i += 1
                else:
                    out.append(('lifetime', m.group(0), i, m.end()))
                    i = m.end()
        elif c.isalpha() or c == '_':
            m = _IDENT.match(src, i)
            out.append(('ident', m.group(0), i, m.end()))
            i = m.end()
        elif c.isdigit():
            m = _NUM.match(src, i)
            out.append(('num', m.group(0), i, m.end()))
            i = m.end()
        else:
            out.append(('punct', c, i, i + 1))
            i += 1
    return out


def texts(toks):
    return [t[1] for t in toks]


_OPEN = {'(': ')', '[': ']', '{': '}'}


def match_close(ts, k):
    op = ts[k][1]
    cl = _OPEN[op]
    d = 0
    for j in range(k, len(ts)):
        if ts[j][0] == 'punct':
            if ts[j][1] == op:
                d += 1
            elif ts[j][1] == cl:
                d -= 1
                if d == 0:
                    return j
    raise ValueError('unbalanced %s at token %d' % (op, k))


def test_module_start(src, ts):
    """Char offset where the first `#[cfg(test)]` starts (items after it are not looked at)."""
    m = re.search(r'#\[cfg\(test\)\]', src)
    return m.start() if m else len(src)


def is_macro_open(ts, k):
    """ts[k] is an opening delimiter directly after `ident !` -> macro arguments (opaque)."""
    return k >= 2 and ts[k - 1][1] == '!' and ts[k - 2][0] == 'ident'


def find_item(src, kind, name):
    """Find `fn name` / `struct name` / `enum name` at any nesting level outside test code and
    outside macro arguments.  Returns (start, end) char offsets covering preceding attributes,
    visibility, and the body up to the closing brace (or `;`).  None if absent; raises if ambiguous."""
    ts = lex(src)
    limit = test_module_start(src, ts)
    hits = []
    k = 0
    while k < len(ts):
        t = ts[k]
        if t[2] >= limit:
            break
        if t[0] == 'punct' and t[1] in _OPEN and is_macro_open(ts, k):
            k = match_close(ts, k) + 1
            continue
        if t[0] == 'ident' and t[1] == kind and k + 1 < len(ts) and ts[k + 1][1] == name and ts[k + 1][0] == 'ident':
            # find the body start
            j = k + 2
            end = None
            while j < len(ts):
                if ts[j][0] == 'punct' and ts[j][1] in '([':
                    j = match_close(ts, j)
                elif ts[j][0] == 'punct' and ts[j][1] == '<':
                    pass
                elif ts[j][0] == 'punct' and ts[j][1] == '{':
                    end = match_close(ts, j)
                    break
                elif ts[j][0] == 'punct' and ts[j][1] == ';':
                    end = j
                    break
                j += 1
            if end is None:
                raise ValueError('no body for %s %s' % (kind, name))
            # walk back over visibility and attributes
            s = k
            if s >= 1 and ts[s - 1][1] == ')' and s >= 4 and ts[s - 4][1] == 'pub':  # pub(crate)
                s -= 4
            elif s >= 1 and ts[s - 1][1] == 'pub':
                s -= 1
            while s >= 1 and ts[s - 1][1] == ']':
                # find the matching '[' and require a preceding '#'
                d = 0
                q = s - 1
                while q >= 0:
                    if ts[q][1] == ']':
                        d += 1
                    elif ts[q][1] == '[':
                        d -= 1
                        if d == 0:
                            break
                    q -= 1
                if q >= 1 and ts[q - 1][1] == '#':
                    s = q - 1
                else:
                    break
            hits.append((ts[s][2], ts[end][3]))
            k = j + 1  # continue inside the body: nested fns are items too
            continue
        k += 1
    if not hits:
        return None
    if len(hits) > 1:
        raise ValueError('ambiguous item %s %s (%d hits)' % (kind, name, len(hits)))
    return hits[0]
