"""Unit files -> generated Verus files.

A unit file (spec/units/<unit>.rs) is Verus source.  Between `//@fn <file>::<name>` (or
`//@item <file>::<kind> <name>`) and `//@end` it holds an *annotated copy* of a real item of
/repo/wgsl_to_wgpu/src/<file>:

    «text»          inserted text (contracts, invariants, closure specs, proof blocks, ghost lets)
    ‹old›«new»      replacement of real tokens `old` by `new` (must be whitelisted by `//@allow-replace`)
    ‹old›           deletion of real tokens (attributes / derives that Verus cannot take; whitelisted too)

Erasing the annotations (drop «..», keep ‹..›) must give, token for token, the item as it stands in
/repo's working tree.  When it does, the generated file is the unit file with the markers resolved,
line for line.  When the repository text has changed, the annotations are carried over to the new
text by a token-level three-way merge (base = erased annotated copy, ours = annotated copy,
theirs = current repository text); annotations whose anchor tokens disappeared are reported as
merge conflicts and dropped.
"""
import difflib
import hashlib
import os
import re

from rslex import lex, texts, find_item

REPO_SRC = os.environ.get('VERIF_REPO_SRC', os.path.join(os.environ.get('VERIF_REPO', '/repo'), 'wgsl_to_wgpu', 'src'))

INS_O, INS_C, OLD_O, OLD_C = '«', '»', '‹', '›'


class ExtractError(Exception):
    """The unit file itself is malformed (never caused by a change to /repo)."""


class LostAnchor(Exception):
    """An item named by a unit is no longer present in /repo."""


def split_chunks(text):
    """annotated text -> list of (kind, text), kind in real|ins|old."""
    out = []
    i = 0
    buf = []
    n = len(text)
    while i < n:
        c = text[i]
        if c == INS_O or c == OLD_O:
            if buf:
                out.append(('real', ''.join(buf)))
                buf = []
            close = INS_C if c == INS_O else OLD_C
            j = text.find(close, i + 1)
            if j < 0:
                raise ExtractError('unterminated %s marker' % c)
            out.append(('ins' if c == INS_O else 'old', text[i + 1:j]))
            i = j + 1
        elif c == INS_C or c == OLD_C:
            raise ExtractError('stray closing marker %s' % c)
        else:
            buf.append(c)
            i += 1
    if buf:
        out.append(('real', ''.join(buf)))
    return out


def resolve(chunks):
    """The text Verus sees when the repository item is unchanged: markers resolved, newlines kept."""
    out = []
    for kind, t in chunks:
        if kind == 'old':
            out.append('\n' * t.count('\n'))
        else:
            out.append(t)
    return ''.join(out)


def erased_tokens(chunks):
    toks = []
    for kind, t in chunks:
        if kind in ('real', 'old'):
            toks.extend(texts(lex(t)))
    return toks


def parse_unit(path):
    """-> dict(name, props, allow, segments).  segments: ('text', lines) | ('block', header, lines, lineno)."""
    lines = open(path, encoding='utf-8').read().split('\n')
    unit = {'path': path, 'name': os.path.splitext(os.path.basename(path))[0], 'props': [], 'allow': [],
            'segments': [], 'kani': [], 'allow_attr': [], 'rewrites': [], 'strip_attrs': [], 'hoist_format': None, 'hoist_patterns': None, 'map_loops': []}
    cur = []
    block = None
    for no, ln in enumerate(lines, 1):
        s = ln.strip()
        if s.startswith('//@'):
            d = s[3:].strip()
            if d.startswith('props '):
                unit['props'] = d.split()[1:]
                cur.append(ln)
            elif d.startswith('allow-replace '):
                m = re.match(r'allow-replace\s+`([^`]*)`\s*=>\s*`([^`]*)`\s*::\s*(.*)$', d)
                if not m:
                    raise ExtractError('%s:%d: bad allow-replace' % (path, no))
                unit['allow'].append({'old': m.group(1), 'new': m.group(2), 'why': m.group(3)})
                cur.append(ln)
            elif d.startswith('allow-delete-attr '):
                m = re.match(r'allow-delete-attr\s+(\S+)\s*::\s*(.*)$', d)
                if not m:
                    raise ExtractError('%s:%d: bad allow-delete-attr' % (path, no))
                unit['allow_attr'].append({'names': m.group(1).split('|'), 'why': m.group(2)})
                cur.append(ln)
            elif d.startswith('rewrite '):
                m = re.match(r'rewrite\s+`([^`]*)`\s*=>\s*`([^`]*)`\s*::\s*(.*)$', d)
                if not m:
                    raise ExtractError('%s:%d: bad rewrite' % (path, no))
                unit['rewrites'].append({'old': texts(lex(m.group(1))), 'new': m.group(2), 'why': m.group(3), 'old_text': m.group(1)})
                cur.append(ln)
            elif d.startswith('strip-attrs '):
                m = re.match(r'strip-attrs\s+(\S+)\s*::\s*(.*)$', d)
                unit['strip_attrs'].append({'names': m.group(1).split('|'), 'why': m.group(2)})
                cur.append(ln)
            elif d.startswith('derive-keep '):
                unit['derive_keep'] = d.split()[1].split('|')
                cur.append(ln)
            elif d.startswith('hoist-closure-patterns'):
                unit['hoist_patterns'] = d.split('::', 1)[-1].strip() or 'closure parameter patterns hoisted into a let'
                cur.append(ln)
            elif d.startswith('hoist-format-captures'):
                unit['hoist_format'] = d.split('::', 1)[-1].strip() or 'format! inline captures hoisted to positional arguments'
                cur.append(ln)
            elif d.startswith('map-collect-to-loop '):
                m = re.match(r'map-collect-to-loop\s+(\w+)\s*::\s*(.*)$', d)
                if not m:
                    raise ExtractError('%s:%d: bad map-collect-to-loop' % (path, no))
                unit['map_loops'].append({'name': m.group(1), 'why': m.group(2)})
                cur.append(ln)
            elif d.startswith('fn ') or d.startswith('item ') or d.startswith('stub '):
                if block is not None:
                    raise ExtractError('%s:%d: nested block' % (path, no))
                unit['segments'].append(('text', cur))
                cur = []
                m = re.match(r'(fn|item|stub)\s+(\S+)::(?:(struct|enum|fn)\s+)?(\w+)(?:\s+props=(\S+))?(?:\s+proved-in=(\S+))?(?:\s+trusted-sha256=(\S+))?', d)
                if not m:
                    raise ExtractError('%s:%d: bad block header' % (path, no))
                kind = m.group(3) or 'fn'
                block = {'file': m.group(2), 'kind': kind, 'name': m.group(4), 'stub': m.group(1) == 'stub', 'proved_in': m.group(6), 'trusted_sha': m.group(7),
                         'props': m.group(5).split(',') if m.group(5) else None, 'header': ln, 'lineno': no, 'lines': []}
            elif d == 'end':
                if block is None:
                    raise ExtractError('%s:%d: stray end' % (path, no))
                block['footer'] = ln
                unit['segments'].append(('block', block))
                block = None
            else:
                cur.append(ln)  # other directives are plain comments for this tool
        else:
            if block is not None:
                block['lines'].append(ln)
            else:
                cur.append(ln)
    if block is not None:
        raise ExtractError('%s: unterminated block %s' % (path, block['name']))
    unit['segments'].append(('text', cur))
    return unit


def _norm(s):
    return ' '.join(texts(lex(s)))


def audit_edits(unit, chunks, where):
    """Every replacement / deletion must be whitelisted; returns the list of edits for the evidence."""
    allow = {(_norm(a['old']), _norm(a['new'])): a['why'] for a in unit['allow']}
    edits = []
    i = 0
    while i < len(chunks):
        kind, t = chunks[i]
        if kind == 'old':
            new = ''
            if i + 1 < len(chunks) and chunks[i + 1][0] == 'ins':
                new = chunks[i + 1][1]
                i += 1
            key = (_norm(t), _norm(new))
            attr_why = _attr_deletion(unit, t) if not new.strip() else None
            if attr_why:
                edits.append({'kind': 'delete', 'old': ' '.join(t.split())[:80], 'new': '', 'why': attr_why})
                i += 1
                continue
            if key not in allow:
                raise ExtractError('%s: replacement `%s` => `%s` is not whitelisted by //@allow-replace' % (where, t.strip(), new.strip()))
            edits.append({'kind': 'replace' if new.strip() else 'delete', 'old': t.strip(), 'new': new.strip(), 'why': allow[key]})
        elif kind == 'ins':
            edits.append({'kind': classify_insertion(t), 'text': t.strip()[:60]})
        i += 1
    return edits


def _attr_deletion(unit, t):
    """`t` consists only of attributes `#[name ...]` whose names are whitelisted -> reason."""
    toks = lex(t)
    k = 0
    why = None
    from rslex import match_close
    while k < len(toks):
        if toks[k][1] != '#' or k + 2 >= len(toks) or toks[k + 1][1] != '[':
            return None
        name = toks[k + 2][1]
        hit = [a for a in unit['allow_attr'] if name in a['names']]
        if not hit:
            return None
        why = hit[0]['why']
        k = match_close(toks, k + 1) + 1
    return why


_INS_KINDS = [
    (r'^(requires|ensures|decreases|recommends)\b', 'contract'),
    (r'^\(\s*\w+\s*:\s*$', 'named-return'), (r'^\)\s*(requires|ensures|decreases)?', 'named-return/contract'),
    (r'^\)$', 'named-return'),
    (r'^invariant\b', 'loop-invariant'), (r'^\w+\s*:$', 'loop-iterator-name'),
    (r'^->\s*\(\s*\w+\s*:', 'closure-spec'), (r'^\}$', 'closure-body-brace'), (r'^\{$', 'closure-body-brace'),
    (r'^proof\s*\{', 'proof-block'), (r'^assert\b', 'assert'), (r'^let ghost\b', 'ghost-let'),
    (r'^broadcast use\b', 'broadcast-use'), (r'^else\s*\{\s*proof\s*\{', 'proof-block-in-new-else'),
    (r'^(\{\s*let __\w+ =\s*)+$', 'ghost-naming-wrapper'), (r'^\}?\s*;\s*proof\s*\{.*\}\s*__\w+\s*\}$', 'ghost-naming-wrapper'),
    (r'^:\s*&?\s*[\w:<>&\' ]+$', 'closure-param-type'),
    # ghost step counter (unit cost): the function additionally returns an erased, zero-sized Ghost<nat>
    (r'^->\s*\(\s*\w+\s*:\s*Ghost<', 'ghost-result'), (r'^let Ghost\(\w+\) =$', 'ghost-result-binding'), (r'^Ghost\(\w+\)$', 'ghost-result'),
    (r'^, Ghost', 'ghost-result'), (r'^\(\s*\w+\s*:\s*\($', 'named-return'),
    (r'^\{\s*proof\s*\{.*\}\s*let Ghost\(\w+\) =$', 'ghost-result-binding'), (r'^;\s*proof\s*\{.*\}\s*\}$', 'proof-block'),
    (r'^#\[verifier::', 'verifier-attribute'), (r'^#\[verus_spec', 'verifier-attribute'),
]


def classify_insertion(t):
    s = ' '.join(t.split())
    for pat, kind in _INS_KINDS:
        if re.match(pat, s, re.S):
            return kind
    return 'unclassified'


_CAPTURE = re.compile(r'\{([A-Za-z_][A-Za-z0-9_]*)(:[^}]*)?\}')


def normalise(unit, text, log=None):
    """The mechanical, unit-wide rewrites of a real item (applied before anything else, to the current
    repository text): attribute stripping, token rewrites from //@rewrite, format! capture hoisting."""
    from rslex import match_close
    ts = lex(text)
    edits = []  # (start, end, replacement)
    # attribute stripping
    names = {}
    for a in unit.get('strip_attrs', []):
        for n in a['names']:
            names[n] = a['why']
    k = 0
    while k < len(ts):
        if ts[k][1] == 'quote' and k + 2 < len(ts) and ts[k + 1][1] == '!' and ts[k + 2][1] in ('(', '[', '{'):
            k = match_close(ts, k + 2) + 1  # the template of generated code is text: never rewritten
            continue
        if names and ts[k][1] == '#' and k + 2 < len(ts) and ts[k + 1][1] == '[' and ts[k + 2][1] in names:
            e = match_close(ts, k + 1)
            kept = []
            if ts[k + 2][1] == 'derive' and unit.get('derive_keep'):
                kept = [t[1] for t in ts[k + 3:e] if t[0] == 'ident' and t[1] in unit['derive_keep']]
            edits.append((ts[k][2], ts[e][3], ('#[derive(%s)]' % ', '.join(kept)) if kept else ''))
            if log is not None:
                log.append({'kind': 'strip-attr', 'text': ' '.join(text[ts[k][2]:ts[e][3]].split())[:80], 'why': names[ts[k + 2][1]]})
            k = e + 1
            continue
        hit = False
        for rw in unit.get('rewrites', []):
            n = len(rw['old'])
            if n and [t[1] for t in ts[k:k + n]] == rw['old']:
                edits.append((ts[k][2], ts[k + n - 1][3], rw['new']))
                if log is not None:
                    log.append({'kind': 'rewrite', 'old': rw['old_text'], 'new': rw['new'], 'why': rw['why']})
                k += n
                hit = True
                break
        if hit:
            continue
        if unit.get('hoist_patterns') and ts[k][1] == '|' and k > 0 and (ts[k - 1][1] in ('(', ',', '=') or ts[k - 1][1] == 'move') \
                and k + 1 < len(ts) and ts[k + 1][1] == '(':
            pe = match_close(ts, k + 1)
            if pe + 1 < len(ts) and ts[pe + 1][1] == '|':
                pat = text[ts[k + 1][2]:ts[pe][3]]
                pname = '__p%d' % len([e for e in edits if e[2].startswith('__p')])
                edits.append((ts[k + 1][2], ts[pe][3], pname))
                b = pe + 2
                if ts[b][1] == '-' and ts[b + 1][1] == '>':
                    while ts[b][1] != '{':
                        b += 1
                if ts[b][1] == '{':
                    edits.append((ts[b][3], ts[b][3], ' let %s = %s;' % (pat, pname)))
                else:
                    j = b
                    while j < len(ts):
                        if ts[j][1] in '([{':
                            j = match_close(ts, j)
                        elif ts[j][1] in (')', ',', ']', '}', ';'):
                            break
                        j += 1
                    edits.append((ts[b][2], ts[b][2], '{ let %s = %s; ' % (pat, pname)))
                    edits.append((ts[j - 1][3], ts[j - 1][3], ' }'))
                if log is not None:
                    log.append({'kind': 'hoist-closure-pattern', 'old': '|%s|' % pat, 'new': '|%s| { let %s = %s; .. }' % (pname, pat, pname), 'why': unit['hoist_patterns']})
        ml = _map_loop_at(unit, ts, k, match_close)
        if ml:
            edits.extend(ml['edits'])
            if log is not None:
                log.append({'kind': 'map-collect-to-loop', 'old': 'let %s = <recv>.map(|%s| <block>).collect();' % (ml['name'], ml['param']),
                            'new': 'let %s = { let mut __acc = Vec::new(); for %s in <recv> { let __o = <block>; __acc.push(__o); } __acc };' % (ml['name'], ml['param']), 'why': ml['why']})
        if unit.get('hoist_format') and ts[k][1] == 'format' and k + 3 < len(ts) and ts[k + 1][1] == '!' and ts[k + 2][1] == '(' and ts[k + 3][0] == 'str':
            lit = ts[k + 3]
            caps = _CAPTURE.findall(lit[1])
            close = match_close(ts, k + 2)
            if caps and close == k + 4 or (caps and ts[k + 4][1] == ',' and close == k + 5):
                newlit = _CAPTURE.sub(lambda m: '{' + (m.group(2) or '') + '}', lit[1])
                edits.append((lit[2], lit[3], newlit + ''.join(', ' + c[0] for c in caps)))
                if log is not None:
                    log.append({'kind': 'hoist-format-captures', 'old': lit[1], 'new': newlit + ''.join(', ' + c[0] for c in caps), 'why': unit['hoist_format']})
        k += 1
    if not edits:
        return text
    out = []
    pos = 0
    for s_, e_, r in sorted(edits):
        out.append(text[pos:s_])
        out.append(r)
        pos = e_
    out.append(text[pos:])
    return ''.join(out)


def _map_loop_at(unit, ts, k, match_close):
    """`let NAME [: TY] = RECV . map ( | P | { .. } ) . collect ( ) ;` at token k (the `let`), NAME listed by
    //@map-collect-to-loop  ->  the three text edits that turn it into the equivalent loop (std: Map calls the closure
    once per element, in order; collect into a Vec pushes the results in that order).  The closure body, the receiver
    and every other token stay as they are."""
    if not unit.get('map_loops') or ts[k][1] != 'let':
        return None
    j = k + 1
    if j < len(ts) and ts[j][1] == 'mut':
        j += 1
    names = {m['name']: m['why'] for m in unit['map_loops']}
    if j >= len(ts) or ts[j][1] not in names:
        return None
    name = ts[j][1]
    # the `=` of the statement (depth 0; generics in the type carry no `=`)
    e = j + 1
    while e < len(ts) and ts[e][1] not in ('=', ';'):
        e += 1
    if e >= len(ts) or ts[e][1] != '=':
        return None
    # `. map ( | P | {` at depth 0 of the initialiser
    q = e + 1
    while q < len(ts) and ts[q][1] != ';':
        if ts[q][1] in '([{':
            q = match_close(ts, q) + 1
            continue
        if ts[q][1] == '.' and q + 6 < len(ts) and [t[1] for t in ts[q + 1:q + 4]] == ['map', '(', '|'] and ts[q + 4][0] == 'ident' \
                and ts[q + 5][1] == '|' and ts[q + 6][1] == '{':
            close_paren = match_close(ts, q + 2)
            body_close = match_close(ts, q + 6)
            tail = [t[1] for t in ts[close_paren + 1:close_paren + 6]]
            if body_close + 1 == close_paren and tail == ['.', 'collect', '(', ')', ';']:
                param = ts[q + 4][1]
                acc = '__acc_' + name
                return {'name': name, 'param': param, 'why': names[name], 'edits': [
                    (ts[e][3], ts[e][3], ' { let mut %s = Vec::new(); for %s in' % (acc, param)),
                    (ts[q][2], ts[q + 5][3], ' { let __o ='),
                    (ts[close_paren][2], ts[close_paren + 4][3], '; %s.push(__o); } %s }' % (acc, acc)),
                ]}
            return None
        q += 1
    return None


def contract_tokens(chunks):
    """Tokens of the contract of an annotated fn: the inserted text before the body's opening brace
    (verifier attributes excluded)."""
    out = []
    for kind, t in chunks:
        if kind == 'real':
            if '{' in texts(lex(t)):
                break
        elif kind == 'ins':
            if t.strip().startswith('#[verifier::'):
                continue
            toks = texts(lex(t))
            if '{' in toks and toks and toks[-1] == '{':  # the insertion that runs up to the body brace of a closure etc.
                toks = toks[:-1]
            out.extend(toks)
    return out


def caller_contract_tokens(chunks):
    """What a caller relies on: the contract without its `decreases` clause (termination is the proving unit's business; a stub
    has no body to terminate) and without a trailing comma."""
    toks = contract_tokens(chunks)
    out = []
    skip = False
    for t in toks:
        if t == 'decreases':
            skip = True
            continue
        if skip and t in ('requires', 'ensures', 'recommends'):
            skip = False
        if not skip:
            out.append(t)
    while out and out[-1] == ',':
        out.pop()
    return out


def check_stub_contract(unit_path, b, chunks):
    other = os.path.join(os.path.dirname(unit_path), b['proved_in'] + '.rs')
    ou = parse_unit(other)
    for seg in ou['segments']:
        if seg[0] == 'block' and not seg[1].get('stub') and seg[1]['file'] == b['file'] and seg[1]['name'] == b['name']:
            oc = split_chunks('\n'.join(seg[1]['lines']))
            if caller_contract_tokens(oc) != caller_contract_tokens(chunks):
                raise ExtractError('%s: the contract of stub %s::%s differs from the one proved in unit %s' % (unit_path, b['file'], b['name'], b['proved_in']))
            return
    raise ExtractError('%s: stub %s::%s: no such fn block in unit %s' % (unit_path, b['file'], b['name'], b['proved_in']))


def real_item_text(block):
    path = os.path.join(REPO_SRC, block['file'])
    if not os.path.exists(path):
        raise LostAnchor('%s: file missing' % block['file'])
    src = open(path, encoding='utf-8').read()
    try:
        span = find_item(src, block['kind'], block['name'])
    except ValueError as e:
        raise LostAnchor('%s::%s: %s' % (block['file'], block['name'], e))
    if span is None:
        raise LostAnchor('%s::%s %s not found' % (block['file'], block['kind'], block['name']))
    text = src[span[0]:span[1]]
    block['_full_sha'] = hashlib.sha256(' '.join(texts(lex(text))).encode()).hexdigest()[:16]
    if block.get('stub'):
        # a stub keeps only the real signature: the callee is proved against its contract in another unit
        ts = lex(text)
        from rslex import match_close
        k = 0
        while k < len(ts):
            if ts[k][1] in '([':
                k = match_close(ts, k)
            elif ts[k][1] == '{':
                break
            k += 1
        text = text[:ts[k][2]] + '{ unimplemented!() }'
    return text, src.count('\n', 0, span[0]) + 1


def _split_commas(ts):
    """Split a token list at top-level commas -> list of token lists (empty trailing element dropped)."""
    from rslex import match_close
    out, cur, k = [], [], 0
    while k < len(ts):
        if ts[k][1] in '([{':
            e = match_close(ts, k)
            cur.extend(ts[k:e + 1])
            k = e + 1
            continue
        if ts[k][1] == ',':
            out.append(cur)
            cur = []
        elif ts[k][1] == '|' and cur and False:
            pass
        else:
            cur.append(ts[k])
        k += 1
    if cur:
        out.append(cur)
    return out


def unfold_for_continue(text, log=None):
    """Verus: "for-loops do not yet support continue".  A guarded `continue` that is a statement of the loop body itself,
        for P in E { A; if C { S; continue; } B }      ->      for P in E { A; if C { S; } else { B } }
    (no `else` on that `if`, the `continue` unlabelled and last in its block) is the same control flow: the rest of the body runs
    exactly when the guard is false.  Applied to the CURRENT repository text only when it contains such a loop (the pinned tree has
    none); every other use of `continue` in a `for` is left alone and stays unsupported.  Mechanical, logged per function."""
    from rslex import match_close, is_macro_open
    for _ in range(8):
        ts = lex(text)
        edit = None
        k = 0
        while k < len(ts) and edit is None:
            if ts[k][0] == 'punct' and ts[k][1] in '([{' and is_macro_open(ts, k):
                k = match_close(ts, k) + 1
                continue
            if ts[k][1] == 'for' and ts[k][0] == 'ident' and not (k and ts[k - 1][1] in ('.', ':', '<')):
                j = k + 1
                while j < len(ts) and ts[j][1] != 'in':
                    j = match_close(ts, j) + 1 if ts[j][1] in '([{' else j + 1
                while j < len(ts) and ts[j][1] != '{':
                    j = match_close(ts, j) + 1 if ts[j][1] in '([' else j + 1
                if j >= len(ts):
                    break
                edit = _continue_edit(ts, j, match_close(ts, j), match_close)
            k += 1
        if edit is None:
            return text
        (ca, cb), else_at, close_at = edit
        text = text[:ca] + text[cb:else_at] + ' else {' + text[else_at:close_at] + '}' + text[close_at:]
        if log is not None:
            log.append({'kind': 'for-continue-to-else', 'old': 'for .. { ..; if C { ..; continue; } REST }', 'new': 'for .. { ..; if C { ..; } else { REST } }',
                        'why': 'Verus does not support `continue` in a for loop; a guarded continue at the top level of the body is the same control flow as running the rest in the else branch'})
    return text


def _continue_edit(ts, bo, bc, match_close):
    """In the block ts[bo..bc], which is in TAIL position of a `for` body (the body itself, or a branch / match arm of the last
    statement of a tail block - so that nothing of the iteration runs after it): the first statement `if C { .. continue; }` without
    else.  Returns ((continue span), position after the if-block, position of the block's closing brace) or None."""
    k = bo + 1
    last_stmt = bo + 1   # token index where the last top-level statement of the block starts
    while k < bc:
        t = ts[k]
        if t[1] in ('for', 'while', 'loop') and t[0] == 'ident' and (k == bo + 1 or ts[k - 1][1] in (';', '}', '{')):
            # a nested loop owns its own `continue`s: skip it entirely
            last_stmt = k
            j = k + 1
            while j < bc and ts[j][1] != '{':
                j = match_close(ts, j) + 1 if ts[j][1] in '([' else j + 1
            k = match_close(ts, j) + 1 if j < bc else bc
            continue
        if t[1] == 'if' and t[0] == 'ident' and (k == bo + 1 or ts[k - 1][1] in (';', '}', '{')):
            last_stmt = k
            j = k + 1
            while j < bc and ts[j][1] != '{':
                j = match_close(ts, j) + 1 if ts[j][1] in '([' else j + 1
            if j >= bc:
                return None
            e = match_close(ts, j)
            nxt = ts[e + 1][1] if e + 1 < len(ts) else ''
            if nxt != 'else':
                if e >= 3 and ts[e - 1][1] == ';' and ts[e - 2][1] == 'continue' and ts[e - 3][1] in (';', '{', '}'):
                    return ((ts[e - 2][2], ts[e - 1][3]), ts[e][3], ts[bc][2])
                k = e + 1
                continue
            # if .. else ..: skip the whole chain (its branches are tail blocks only if it is the last statement: handled below)
            k = e + 1
            while k < bc and ts[k][1] == 'else':
                j = k + 1
                while j < bc and ts[j][1] != '{':
                    j = match_close(ts, j) + 1 if ts[j][1] in '([' else j + 1
                if j >= bc:
                    return None
                k = match_close(ts, j) + 1
            continue
        if t[1] in '([{':
            k = match_close(ts, k) + 1
            continue
        if t[1] == ';':
            last_stmt = k + 1
        elif k == bo + 1 or ts[k - 1][1] in (';', '}'):
            last_stmt = k
        k += 1
    # no guarded continue at this level: descend into the branches / arms of the LAST statement, if it ends the block
    if last_stmt >= bc or ts[bc - 1][1] != '}':
        return None
    head = ts[last_stmt][1]
    if head == 'match':
        j = last_stmt + 1
        while j < bc and ts[j][1] != '{':
            j = match_close(ts, j) + 1 if ts[j][1] in '([' else j + 1
        if j >= bc or match_close(ts, j) != bc - 1:
            return None
        q = j + 1
        while q < bc - 1:
            if ts[q][1] in '([{':
                q = match_close(ts, q) + 1
                continue
            if ts[q][1] == '=' and ts[q + 1][1] == '>' and ts[q + 2][1] == '{':
                r = _continue_edit(ts, q + 2, match_close(ts, q + 2), match_close)
                if r:
                    return r
                q = match_close(ts, q + 2) + 1
                continue
            q += 1
        return None
    if head == 'if':
        q = last_stmt + 1
        while q < bc:
            if ts[q][1] in '([':
                q = match_close(ts, q) + 1
                continue
            if ts[q][1] == '{':
                r = _continue_edit(ts, q, match_close(ts, q), match_close)
                if r:
                    return r
                q = match_close(ts, q) + 1
                continue
            q += 1
        return None
    return None


def fix_hoisted_closure_specs(text, log=None):
    """After a merge: a closure whose parameter PATTERN was hoisted (`|(i, b)| body` -> `|__p0| { let (i, b) = __p0; body }`) may have
    received, from the annotated copy, a contract written for a closure with a plain parameter (`|b| -> (o: T) requires P(b) ..`):
    the contract now stands before the `let` that binds `b`.  For a flat tuple pattern the components are projections of the
    parameter, so the contract is rewritten to name them directly (`b` -> `__p0.1`); nothing else is touched."""
    from rslex import match_close
    ts = lex(text)
    edits = []
    k = 0
    while k + 3 < len(ts):
        if ts[k][1] == '|' and ts[k + 1][0] == 'ident' and ts[k + 1][1].startswith('__p') and ts[k + 2][1] == '|' and ts[k + 3][1] == '-' and ts[k + 4][1] == '>':
            pname = ts[k + 1][1]
            # find the body brace: first `{` followed by `let (` .. `) = pname ;`
            j = k + 5
            body = None
            while j + 2 < len(ts):
                if ts[j][1] == '{' and ts[j + 1][1] == 'let' and ts[j + 2][1] == '(':
                    pe = match_close(ts, j + 2)
                    if pe + 3 < len(ts) and ts[pe + 1][1] == '=' and ts[pe + 2][1] == pname and ts[pe + 3][1] == ';':
                        body = (j, pe)
                    break
                if ts[j][1] in '([':
                    j = match_close(ts, j)
                j += 1
            if body:
                comps = _split_commas(ts[body[0] + 3:body[1]])
                names = {}
                flat = True
                for idx, c in enumerate(comps):
                    c = [t for t in c if t[1] not in ('&', 'mut', 'ref')]
                    if len(c) == 1 and c[0][0] == 'ident':
                        if c[0][1] != '_':
                            names[c[0][1]] = '%s.%d' % (pname, idx)
                    else:
                        flat = False
                if flat and names:
                    spec = ts[k + 3:body[0]]
                    toks = [t[1] for t in spec]
                    if pname in toks:
                        names = {}   # the contract already speaks about the hoisted parameter: it was written for this form
                    for nm, proj in names.items():
                        for i in _var_positions(toks, nm):
                            edits.append((spec[i][2], spec[i][3], proj))
                    if log is not None and edits:
                        log.append({'kind': 'closure-spec-follows-hoisted-pattern', 'old': ', '.join(names), 'new': ', '.join(names.values()),
                                    'why': 'the contract of the closure was written for a plain parameter; the current text destructures a tuple'})
        k += 1
    if not edits:
        return text
    out, pos = [], 0
    for a, b, r in sorted(set(edits)):
        out.append(text[pos:a]); out.append(r); pos = b
    out.append(text[pos:])
    return ''.join(out)


def count_unannotated(text):
    """(closures without a contract, loops without an invariant) in an item, templates of generated code skipped.  A closure counts as
    annotated when its parameter list is followed by `-> (`; a loop when `invariant` occurs between its keyword and its body."""
    from rslex import match_close, is_macro_open
    ts = lex(text)
    closures = loops = 0
    k = 0
    n = len(ts)
    while k < n:
        t = ts[k]
        if t[0] == 'punct' and t[1] in '([{' and is_macro_open(ts, k) and k >= 2 and ts[k - 2][1] in ('quote', 'format', 'panic', 'todo', 'unimplemented', 'assert', 'matches'):
            k = match_close(ts, k) + 1
            continue
        if t[1] == '|' and k > 0 and ts[k - 1][1] in ('(', ',', '=', 'move', 'return'):
            # parameter list up to the closing `|`
            j = k + 1
            while j < n and ts[j][1] != '|':
                j = match_close(ts, j) + 1 if ts[j][1] in '([' else j + 1
            if j + 2 < n and not (ts[j + 1][1] == '-' and ts[j + 2][1] == '>'):
                closures += 1
            k = j + 1
            continue
        if t[0] == 'ident' and t[1] in ('for', 'while', 'loop') and not (k and ts[k - 1][1] in ('.', ':', '<', '\'')) and not (t[1] == 'for' and k + 1 < n and ts[k + 1][1] == '<'):
            j = k + 1
            has_inv = False
            while j < n and ts[j][1] != '{':
                if ts[j][1] == 'invariant':
                    has_inv = True
                    break
                j = match_close(ts, j) + 1 if ts[j][1] in '([' else j + 1
            if not has_inv:
                loops += 1
        k += 1
    return closures, loops


def inline_new_helpers(unit, block, text, log=None, depth=0):
    """A call of a function that is defined in the same source file but is in no unit (a helper that did not exist when the
    annotated copy was written: "extract function") is replaced by the helper's body, so that the caller can still be verified
    against its contract:    h(a1, a2)   ->   { let p1: T1 = a1; let p2: T2 = a2; let __ret: R = { BODY }; __ret }
    Only when this is exactly what a call does: plain `fn` (no generics, no self, no where clause), simple `name: Type` parameters,
    no `return` / `?` in the body, not recursive, argument count matches.  Arguments are evaluated in order before the body, as
    in a call.  Everything else is left alone (the unknown callee then makes the unit UNDECIDED as before)."""
    from rslex import match_close, is_macro_open
    if depth > 3 or block.get('stub') or block.get('kind') != 'fn':
        return text
    known = set(b['name'] for kind, b in unit['segments'] if kind == 'block')
    path = os.path.join(REPO_SRC, block['file'])
    try:
        src = open(path, encoding='utf-8').read()
    except OSError:
        return text
    ts = lex(text)
    # the body of the item only (the signature is not rewritten)
    edits = []
    k = 0
    while k < len(ts):
        t = ts[k]
        if t[0] == 'punct' and t[1] in '([{' and is_macro_open(ts, k):
            k = match_close(ts, k) + 1
            continue
        if (t[0] == 'ident' and k + 1 < len(ts) and ts[k + 1][1] == '(' and (k == 0 or ts[k - 1][1] not in ('.', ':', 'fn'))
                and t[1] not in known and t[1] not in _KEYWORDS and t[1] != block['name']):
            try:
                span = find_item(src, 'fn', t[1])
            except ValueError:
                span = None
            h = _parse_helper(src[span[0]:span[1]], t[1]) if span else None
            if h:
                close = match_close(ts, k + 1)
                args = _split_commas(ts[k + 2:close])
                if len(args) == len(h['params']):
                    parts = ['{']
                    for (pn, pt), a in zip(h['params'], args):
                        parts.append('let %s: %s = %s;' % (pn, pt, text[a[0][2]:a[-1][3]]))
                    body = inline_new_helpers(unit, dict(block, name=t[1]), h['body'], log, depth + 1)
                    if h['ret'] and 'impl' not in h['ret'].split():
                        parts.append('let __ret: %s = %s; __ret }' % (h['ret'], body))
                    else:
                        parts.append('%s }' % body)
                    edits.append((t[2], ts[close][3], ' '.join(parts)))
                    if log is not None:
                        log.append({'kind': 'inline-new-helper', 'old': t[1] + '(..)', 'new': 'the body of fn %s, parameters bound by let' % t[1],
                                    'why': 'the callee is defined in %s but is in no unit (no contract): its body is verified in place' % block['file']})
                    k = close + 1
                    continue
        k += 1
    if not edits:
        return text
    out, pos = [], 0
    for a, b, r in edits:
        out.append(text[pos:a])
        out.append(r)
        pos = b
    out.append(text[pos:])
    return ''.join(out)


def _parse_helper(item, name):
    from rslex import match_close
    ts = lex(item)
    k = next((i for i, t in enumerate(ts) if t[1] == 'fn' and i + 1 < len(ts) and ts[i + 1][1] == name), None)
    if k is None or any(t[1] in ('unsafe', 'async', 'extern') for t in ts[:k]):
        return None
    if ts[k + 2][1] != '(':
        return None  # generics
    pe = match_close(ts, k + 2)
    params = []
    for p in _split_commas(ts[k + 3:pe]):
        q = p[1:] if p and p[0][1] == 'mut' else p
        if len(q) < 3 or q[0][0] != 'ident' or q[1][1] != ':' or q[0][1] == 'self':
            return None
        params.append((('mut ' if p[0][1] == 'mut' else '') + q[0][1], item[q[2][2]:q[-1][3]]))
    j = pe + 1
    ret = None
    while j < len(ts) and ts[j][1] != '{':
        if ts[j][1] == 'where':
            return None
        j += 1
    if j >= len(ts):
        return None
    if ts[pe + 1][1] == '-' and ts[pe + 2][1] == '>':
        ret = item[ts[pe + 3][2]:ts[j - 1][3]]
    be = match_close(ts, j)
    body_ts = ts[j + 1:be]
    for i, t in enumerate(body_ts):
        if t[1] in ('return', '?') or (t[1] == name and i + 1 < len(body_ts) and body_ts[i + 1][1] == '('):
            return None
    return {'params': params, 'ret': ret, 'body': item[ts[j][2]:ts[be][3]]}


def _binds_prev(ins_text):
    """When new tokens appeared between the two neighbours of an insertion: does it stay with the token before it?
    Closure contracts (`-> (o: T) ensures .. {`) follow the closure's parameters; closers of ghost-naming wrappers
    (`; proof { .. } __v }`) follow the wrapped expression.  Openers of wrappers (`{ let __v =`, `= { let __v`) and loop
    labels (`it:`) precede the expression they wrap and stay with the token after them."""
    s = ins_text.strip()
    if s.startswith('->'):
        return True
    if s.startswith(';') or s.startswith('}') or s.startswith(')'):
        return True
    if re.search(r'\b__\w+\s*\}\s*;?\s*$', s):
        return True   # the closer of a ghost-naming wrapper (`.. proof {..} __v }` / `__v };`) follows the wrapped expression
    if s.endswith('=') or s.endswith(':') or s.endswith('= {') or re.search(r'\{\s*let\s+(mut\s+)?\w+\s*$', s):
        return False
    return s.endswith('{') or s.endswith('(')


_KEYWORDS = set('as break const continue crate else enum extern false fn for if impl in let loop match mod move mut pub ref return self Self static struct '
                'super trait true type unsafe use where while async await dyn requires ensures invariant decreases proof assert forall exists choose spec '
                'open closed ghost tracked old final'.split())
_IDENT_RE = re.compile(r'[A-Za-z_][A-Za-z0-9_]*$')


def _var_positions(toks, name):
    """Indices where `name` occurs as a plain variable: not a field / method (after `.`), not a path segment (`::` on either side),
    not a struct-literal field name or label (`name:` directly after `{` or `,`)."""
    out = []
    for i, t in enumerate(toks):
        if t != name:
            continue
        prev = toks[i - 1] if i else ''
        prev2 = toks[i - 2] if i >= 2 else ''
        nxt = toks[i + 1] if i + 1 < len(toks) else ''
        nxt2 = toks[i + 2] if i + 2 < len(toks) else ''
        if prev == '.' or (prev == ':' and prev2 == ':') or (nxt == ':' and nxt2 == ':'):
            continue
        if nxt == ':' and nxt2 != ':' and prev in ('{', ',', 'pub', ')'):
            continue  # `name: value` in a struct literal / pattern / template
        out.append(i)
    return out


def infer_renames(r0, r1):
    """Local variables / parameters / closure parameters renamed consistently between the annotated copy's real tokens (r0) and the
    current text (r1): every variable occurrence of `a` in r0 sits, in a same-length replaced run, opposite `b`, `a` no longer occurs
    as a variable in r1 and `b` did not occur as a variable in r0.  Returns {a: b}."""
    sm = difflib.SequenceMatcher(None, r0, r1, autojunk=False)
    pairs = {}
    for tag, i1, i2, j1, j2 in sm.get_opcodes():
        if tag != 'replace' or i2 - i1 != j2 - j1:
            continue
        for k in range(i2 - i1):
            a, b = r0[i1 + k], r1[j1 + k]
            if a != b and _IDENT_RE.match(a) and _IDENT_RE.match(b) and a not in _KEYWORDS and b not in _KEYWORDS:
                pairs.setdefault((a, b), []).append((i1 + k, j1 + k))
    out = {}
    for (a, b), pos in pairs.items():
        va0, va1, vb0 = _var_positions(r0, a), _var_positions(r1, a), _var_positions(r0, b)
        if va1 or vb0:
            continue
        if set(va0) <= set(p for p, _ in pos) and a not in out and b not in out.values():
            out[a] = b
    return out


def _rename_text(text, ren):
    """Token-level identifier substitution (variable occurrences only), trivia and comments preserved."""
    ts = lex(text)
    toks = texts(ts)
    hit = set()
    for a in ren:
        hit.update(_var_positions(toks, a))
    if not hit:
        return text
    out, pos = [], 0
    for i, t in enumerate(ts):
        out.append(text[pos:t[2]])
        out.append(ren[t[1]] if i in hit else t[1])
        pos = t[3]
    out.append(text[pos:])
    return ''.join(out)


def _atoms(text):
    """annotated text -> atoms (kind, text, start, end): real tokens, and each inserted / old region as ONE atom."""
    out = []
    pos = 0
    for kind, t in split_chunks(text):
        if kind == 'real':
            for tk in lex(t):
                out.append(('real', tk[1], pos + tk[2], pos + tk[3]))
            pos += len(t)
        else:
            out.append((kind, t, pos, pos + len(t) + 2))
            pos += len(t) + 2
    return out


def _close_of(at, k):
    """index of the real token that closes the bracket opened by real atom k."""
    pairs = {'(': ')', '[': ']', '{': '}'}
    depth = 0
    for j in range(k, len(at)):
        if at[j][0] != 'real':
            continue
        if at[j][1] in pairs:
            depth += 1
        elif at[j][1] in (')', ']', '}'):
            depth -= 1
            if depth == 0:
                return j
    return None


def _match_arms(at, k):
    """`match` keyword at atom k -> (scrutinee key, open index, close index, [(pattern key, first atom, last atom)]) or None.
    Only matches in which every arm ends with a `,` or has a block body (so that arms can change places without new commas)."""
    j = k + 1
    depth = 0
    while j < len(at):
        if at[j][0] == 'real':
            t = at[j][1]
            if t in '([':
                c = _close_of(at, j)
                if c is None:
                    return None
                j = c + 1
                continue
            if t == '{' and depth == 0:
                break
        j += 1
    if j >= len(at):
        return None
    op = j
    cl = _close_of(at, op)
    if cl is None:
        return None
    scrut = tuple(a[1] for a in at[k + 1:op] if a[0] == 'real')
    arms = []
    i = op + 1
    while i < cl:
        first = i
        # pattern: up to `=` `>` at depth 0
        pat = []
        while i < cl:
            a = at[i]
            if a[0] == 'real':
                if a[1] in '([{':
                    c = _close_of(at, i)
                    pat.extend(x[1] for x in at[i:c + 1] if x[0] == 'real')
                    i = c + 1
                    continue
                if a[1] == '=' and i + 1 < cl and at[i + 1][0] == 'real' and at[i + 1][1] == '>' and at[i + 1][2] == a[3]:
                    break
                pat.append(a[1])
            i += 1
        if i >= cl:
            return None
        i += 2  # past `=>`
        while i < cl and at[i][0] != 'real':
            i += 1
        if i >= cl:
            return None
        if at[i][1] == '{':
            c = _close_of(at, i)
            i = c + 1
            nxt = i
            while nxt < cl and at[nxt][0] != 'real':
                nxt += 1
            if nxt < cl and at[nxt][1] == ',':
                i = nxt + 1
        else:
            while i < cl:
                a = at[i]
                if a[0] == 'real' and a[1] in '([{':
                    i = _close_of(at, i) + 1
                    continue
                if a[0] == 'real' and a[1] == ',':
                    break
                i += 1
            if i >= cl:
                return None  # last arm without a trailing comma: leave this match alone
            i += 1
        arms.append((tuple(pat), first, i - 1))
    return scrut, op, cl, arms


def align_match_arms(text, real_text, log=None):
    """Behaviour-preserving reordering of the arms of a `match` (disjoint patterns moved around) defeats a token diff: every arm
    looks deleted here and inserted there, and the annotations inside the arms lose their anchors.  If the CURRENT text has a
    `match` on the same scrutinee whose arm patterns are a permutation of the arm patterns of a `match` in the annotated copy
    (all patterns distinct), the arms of the annotated copy - with their annotations - are put into the current order before
    the merge.  Only the annotated copy is rearranged, never the repository text; logged as a normalisation."""
    for _ in range(6):
        at = _atoms(text)
        cur = [('real', t[1], t[2], t[3]) for t in lex(real_text)]
        cur_matches = {}
        for k, a in enumerate(cur):
            if a[1] == 'match' and (k == 0 or cur[k - 1][1] != '.'):
                m = _match_arms(cur, k)
                if m:
                    cur_matches.setdefault(m[0], []).append([x[0] for x in m[3]])
        done = True
        for k, a in enumerate(at):
            if a[0] != 'real' or a[1] != 'match' or (k > 0 and at[k - 1][0] == 'real' and at[k - 1][1] == '.'):
                continue
            m = _match_arms(at, k)
            if not m:
                continue
            scrut, op, cl, arms = m
            keys = [x[0] for x in arms]
            if len(set(keys)) != len(keys) or len(keys) < 2:
                continue
            cands = [c for c in cur_matches.get(scrut, []) if sorted(c) == sorted(keys)]
            if len(cands) != 1 or cands[0] == keys:
                continue
            order = cands[0]
            # text spans of the arms: from the arm's first atom to the start of the next arm (or to the closing brace)
            starts = [at[x[1]][2] for x in arms]
            ends = starts[1:] + [at[cl][2]]
            spans = {x[0]: text[s:e] for x, s, e in zip(arms, starts, ends)}
            # the last arm's tail (whitespace before `}`) stays last
            last_key = keys[-1]
            tail_ws = spans[last_key][len(spans[last_key].rstrip()):]
            spans[last_key] = spans[last_key].rstrip() + (spans[keys[0]][len(spans[keys[0]].rstrip()):] or '\n')
            new_body = ''.join(spans[kx] for kx in order).rstrip() + tail_ws
            text = text[:starts[0]] + new_body + text[ends[-1]:]
            if log is not None:
                log.append({'kind': 'align-match-arms', 'why': 'the arms of `match %s` are in a different order in the current text: the annotated copy was rearranged to that order (arms with their annotations moved as units)' % ' '.join(scrut)[:60]})
            done = False
            break
        if done:
            break
    return text


def merge(chunks, real_text):
    """Three-way token merge.  Returns (text, conflicts)."""
    # consistent renames of locals in the current text are applied to the annotated copy first (real tokens AND annotations), so that
    # ghost code keeps naming the same variables; recorded in merge.last_renames
    base = []
    for kind, t in chunks:
        if kind in ('real', 'old'):
            base.extend(texts(lex(t)))
    merge.last_renames = {}
    try:
        ren = infer_renames(base, texts(lex(real_text)))
    except Exception:
        ren = {}
    if ren:
        chunks = [(kind, _rename_text(t, ren)) for kind, t in chunks]
        merge.last_renames = ren
    # elements of the annotated copy in order, with R0 indices for real/old tokens
    r0 = []
    elems = []  # ('tok', r0index) | ('ins', text, pos) | ('old', [r0 indices], newtext or None)
    i = 0
    while i < len(chunks):
        kind, t = chunks[i]
        if kind == 'real':
            for tok in texts(lex(t)):
                elems.append(('tok', len(r0)))
                r0.append(tok)
        elif kind == 'old':
            idx = []
            for tok in texts(lex(t)):
                idx.append(len(r0))
                r0.append(tok)
            new = None
            if i + 1 < len(chunks) and chunks[i + 1][0] == 'ins':
                new = chunks[i + 1][1]
                i += 1
            elems.append(('old', idx, new))
        else:
            elems.append(('ins', t, len(r0)))
        i += 1
    rt = lex(real_text)
    r1 = texts(rt)
    sm = difflib.SequenceMatcher(None, r0, r1, autojunk=False)
    image = {}
    for a, b, size in sm.get_matching_blocks():
        for k in range(size):
            image[a + k] = b + k
    # "slider" correction: a deleted run of r0 tokens that can be shifted without changing the diff (the token before the
    # run equals its last token, or the first equals the one after) is moved to where it covers whole statements, i.e. it
    # starts right after `;` `{` `}` and ends with `;` or `}`.  Without this, deleting the second of two similar calls
    # is reported as deleting the tail of the first and the head of the second, and annotations in between lose both anchors.
    partner = {}
    stack = []
    for i_, tok in enumerate(r0):
        if tok in ('(', '[', '{'):
            stack.append(i_)
        elif tok in (')', ']', '}') and stack:
            j_ = stack.pop()
            partner[i_] = j_
            partner[j_] = i_

    def _score(a, b):
        sc = (1 if a > 0 and r0[a - 1] in (';', '{', '}') else 0) + (1 if b > 0 and r0[b - 1] in (';', '}') else 0)
        # a deleted bracket whose partner is deleted as well: the pair went away together; a deleted bracket whose partner
        # survives would leave the text unbalanced
        for i_ in range(a, b):
            if r0[i_] in ('(', ')', '[', ']', '{', '}'):
                q = partner.get(i_)
                if q is not None:
                    sc += 2 if (a <= q < b or q not in image) else -2
        return sc

    def _runs():
        out_, a_ = [], 0
        while a_ < n0:
            if a_ in image:
                a_ += 1
                continue
            b_ = a_
            while b_ < n0 and b_ not in image:
                b_ += 1
            if a_ > 0 and b_ < n0 and (a_ - 1) in image and image[b_] == image[a_ - 1] + 1:
                out_.append((a_, b_))
            a_ = b_
        return out_

    # guard removal / guard insertion: `{ if C { S } }` vs `{ S }`.  The differ may delete `{ if C` and the LAST `}` (keeping the
    # guard's own braces as the surrounding block's) - equally short, but then everything anchored between the two closing braces
    # ends up outside the block.  Prefer deleting the statement `if C {` .. `}`: the run is shifted by one at both ends.
    for a_ in range(len(r0)):
        if r0[a_] != '{' or a_ in image or a_ + 1 >= len(r0) or r0[a_ + 1] not in ('if', 'while', 'for', 'match', 'loop', 'unsafe'):
            continue
        b_ = a_ + 1
        while b_ < len(r0) and b_ not in image:
            b_ += 1
        if b_ >= len(r0) or r0[b_] != '{':
            continue
        pa_, pb_ = partner.get(a_), partner.get(b_)
        if pa_ is None or pb_ is None or pa_ in image or pb_ not in image or pb_ + 1 != pa_:
            continue
        image[a_] = image.pop(b_)
        image[pa_] = image.pop(pb_)
    # inserted bracket pairs in the CURRENT text: `S; }` vs `{ S; } }` (a statement wrapped in a block, an expression in parentheses).  The
    # differ matches the old closer with the FIRST of the equal closers and reports the LAST one as new - then whatever is anchored after
    # the old closer lands inside the block that the old closer used to end.  If a new opener's partner (in the current text) is matched while
    # a later closer of the same run of closers is new, the matches of the run are shifted by one: the partner becomes the new token.
    partner1 = {}
    stack1 = []
    for i_, tok in enumerate(r1):
        if tok in ('(', '[', '{'):
            stack1.append(i_)
        elif tok in (')', ']', '}') and stack1:
            j_ = stack1.pop()
            partner1[i_] = j_
            partner1[j_] = i_
    for _pass in range(8):
        inv = {v: k for k, v in image.items()}
        moved = False
        for o_ in range(len(r1)):
            if r1[o_] not in ('(', '[', '{') or o_ in inv:
                continue
            c_ = partner1.get(o_)
            if c_ is None or c_ not in inv:
                continue
            q_ = c_
            while q_ + 1 < len(r1) and r1[q_ + 1] == r1[c_] and q_ in inv:
                q_ += 1
            if q_ == c_ or q_ in inv or r1[q_] != r1[c_] or any(k not in inv for k in range(c_, q_)):
                continue
            # the closers c_ .. q_-1 are matched, q_ is new: shift
            for k in range(q_ - 1, c_ - 1, -1):
                image[inv[k]] = k + 1
            moved = True
            break
        if not moved:
            break
    n0 = len(r0)
    done_runs = set()
    for _ in range(200):
        todo_ = [r_ for r_ in _runs() if r_ not in done_runs]
        if not todo_:
            break
        a, b = min(todo_, key=lambda r_: (r_[1] - r_[0], r_[0]))   # shortest first: lone brackets decide before the runs that contain their partners
        best, best_shift = _score(a, b), 0
        k = 0
        saved = dict(image)
        # forward shifts (evaluated on a scratch copy so that the partner test sees the shifted state)
        while b + k < n0 and (b + k) in saved and r0[a + k] == r0[b + k] and (k == 0 or saved[b + k] == saved[b + k - 1] + 1):
            image[a + k] = image.pop(b + k)
            k += 1
            sc = _score(a + k, b + k)
            if sc > best:
                best, best_shift = sc, k
        image.clear()
        image.update(saved)
        k = 0
        while a - 1 - k >= 0 and (a - 1 - k) in saved and r0[a - 1 - k] == r0[b - 1 - k] and (k == 0 or saved[a - 1 - k] == saved[a - k] - 1):
            image[b - 1 - k] = image.pop(a - 1 - k)
            k += 1
            sc = _score(a - k, b - k)
            if sc > best:
                best, best_shift = sc, -k
        image.clear()
        image.update(saved)
        if best_shift > 0:
            for t in range(best_shift):
                image[a + t] = image.pop(b + t)
        elif best_shift < 0:
            for t in range(-best_shift):
                image[b - 1 - t] = image.pop(a - 1 - t)
        done_runs.add((a + best_shift, b + best_shift))
    before = {}  # r1 index -> [text]   (emit before that token)
    after = {}   # r1 index -> [text]
    suppress = set()
    conflicts = []
    dropped = []
    reanchored = []
    n1 = len(r1)
    matched1 = set(image.values())
    for e in elems:
        if e[0] == 'ins':
            _, t, p = e
            nxt = image.get(p) if p < len(r0) else None
            prv = image.get(p - 1) if p > 0 else None
            if p >= len(r0) and prv is None and not r0:
                nxt = None
            if p > 0 and r0[p - 1] == 'return' and prv is None and re.match(r'\s*Ghost\(\w+\)\s*$', t):
                # the ghost result of a `return` statement that no longer exists
                dropped.append({'kind': 'annotation-of-deleted-code', 'text': t.strip()[:80], 'deleted': 'return'})
                continue
            if p < len(r0) and r0[p] in ('return', 'break', 'continue') and nxt is None and re.match(r'\s*(proof\s*\{|assert\b)', t):
                # a hint that justifies an exit (`proof {..} return;`) belongs to that exit: when the exit statement is gone the hint goes with
                # it - re-anchored to the token before, it would land in whatever now occupies the branch (possibly the opposite case)
                dropped.append({'kind': 'annotation-of-deleted-code', 'text': t.strip()[:80], 'deleted': r0[p]})
                continue
            choice = None
            if nxt is not None and prv is not None:
                if nxt == prv + 1:
                    choice = ('before', nxt)
                else:
                    # a ghost `let` / `broadcast use` directly after an opening brace captures the state at block entry: it stays at
                    # the start of the block when new statements (a guard around the first statement, say) appear after it
                    at_block_start = p > 0 and r0[p - 1] == '{' and re.match(r'\s*(let ghost|broadcast use)\b', t) is not None
                    choice = ('after', prv) if (_binds_prev(t) or at_block_start) else ('before', nxt)
            elif nxt is not None:
                choice = ('before', nxt)
            elif prv is not None:
                choice = ('after', prv)
            if choice is not None and choice[0] == 'before':
                # a BARE block newly put around the statement the insertion stands before (`S;` -> `{ S; }`): the insertion stays outside,
                # before the new `{`, so that what it declares is still in scope for the annotations that follow the statement
                x_ = choice[1]
                while x_ - 1 >= 0 and r1[x_ - 1] == '{' and (x_ - 1) not in matched1 and (x_ - 2 < 0 or r1[x_ - 2] in (';', '{', '}')):
                    x_ -= 1
                choice = ('before', x_)
            if choice is None and 0 < p < len(r0):
                a = p
                while a > 0 and (a - 1) not in image:
                    a -= 1
                b = p
                while b < len(r0) and b not in image:
                    b += 1
                # MOVED code: the tokens that followed (or preceded) the insertion reappear, exactly once, among the tokens of the
                # current text that have no counterpart in the annotated copy -> the annotation moves with the statement it was
                # attached to (a reordering of independent statements is a delete + insert for the differ)
                moved = None
                k_ = min(6, b - p)
                if k_ >= 3:
                    hits = [j for j in range(0, n1 - k_ + 1) if r1[j:j + k_] == r0[p:p + k_] and all(x not in matched1 for x in range(j, j + k_))]
                    if len(hits) == 1:
                        moved = ('before', hits[0])
                k_ = min(6, p - a)
                if moved is None and k_ >= 3:
                    hits = [j for j in range(0, n1 - k_ + 1) if r1[j:j + k_] == r0[p - k_:p] and all(x not in matched1 for x in range(j, j + k_))]
                    if len(hits) == 1:
                        moved = ('after', hits[0] + k_ - 1)
                if moved is not None:
                    (before if moved[0] == 'before' else after).setdefault(moved[1], []).append(t)
                    reanchored.append({'kind': 'annotation-followed-moved-code', 'text': t.strip()[:80]})
                    continue
                # both neighbours were deleted: if the whole deleted run around the insertion is bracket-balanced (a complete
                # statement or expression went away), the insertion annotated code that no longer exists - it goes with it
                depth, ok = 0, True
                for tok in r0[a:b]:
                    if tok in ('(', '[', '{'):
                        depth += 1
                    elif tok in (')', ']', '}'):
                        depth -= 1
                        if depth < 0:
                            ok = False
                            break
                if ok and depth == 0:
                    # deleted, or moved to a place the annotation could not follow?  If most of the deleted tokens are among the
                    # current text's unmatched tokens the code was moved or rewritten in place: losing the annotation is a merge
                    # conflict (a failure of this function is then UNDECIDED), not the clean deletion of annotated code
                    import collections
                    un1 = collections.Counter(r1[j] for j in range(n1) if j not in matched1)
                    run = collections.Counter(tok for tok in r0[a:b] if tok not in '()[]{};,.')
                    common = sum(min(c, un1.get(tok, 0)) for tok, c in run.items())
                    if sum(run.values()) >= 3 and common * 10 >= sum(run.values()) * 6:
                        conflicts.append({'kind': 'annotation-of-moved-code', 'text': t.strip()[:80], 'contract': bool(re.search(r'\b(requires|ensures|invariant|decreases)\b', t))})
                        continue
                    dropped.append({'kind': 'annotation-of-deleted-code', 'text': t.strip()[:80], 'deleted': ' '.join(r0[a:b])[:120]})
                    continue
            if choice is None and 0 < p < len(r0):
                # both neighbours are gone and the run around the insertion is not balanced (the differ matched a `;` or `,` inside the
                # deleted statement with a new one): if the innermost block that held the insertion lost BOTH its braces, the block
                # was deleted and the annotation, which has no surviving anchor, goes with it
                depth_, o_ = 0, None
                for q in range(p - 1, -1, -1):
                    if r0[q] in (')', ']', '}'):
                        depth_ += 1
                    elif r0[q] in ('(', '[', '{'):
                        if depth_ == 0:
                            o_ = q
                            break
                        depth_ -= 1
                if o_ is not None and r0[o_] == '{' and o_ not in image and partner.get(o_) is not None and partner[o_] not in image and not re.search(r'\b(requires|ensures|invariant|decreases)\b', t):
                    dropped.append({'kind': 'annotation-of-deleted-code', 'text': t.strip()[:80], 'deleted': ' '.join(r0[o_:partner[o_] + 1])[:120]})
                    continue
            if choice is None:
                conflicts.append({'kind': 'insertion', 'text': t.strip()[:80], 'contract': bool(re.search(r'\b(requires|ensures|invariant|decreases)\b', t))})
            elif choice[0] == 'before':
                before.setdefault(choice[1], []).append(t)
            else:
                after.setdefault(choice[1], []).append(t)
        elif e[0] == 'old':
            _, idx, new = e
            imgs = [image.get(k) for k in idx]
            ok = all(x is not None for x in imgs) and all(imgs[k + 1] == imgs[k] + 1 for k in range(len(imgs) - 1))
            if ok and imgs:
                suppress.update(imgs)
                if new is not None:
                    before.setdefault(imgs[0], []).append(new)
            elif idx:
                conflicts.append({'kind': 'replacement', 'old': ' '.join(r0[k] for k in idx)[:80], 'new': (new or '').strip()[:80]})
    # print: walk the real text, keeping its own trivia
    out = []
    pos = 0
    for j, tok in enumerate(rt):
        out.append(real_text[pos:tok[2]])
        for t in before.get(j, []):
            out.append(' ' + t + ('\n' if '//' in t else ' '))
        if j not in suppress:
            out.append(tok[1])
        for t in after.get(j, []):
            out.append(' ' + t + ('\n' if '//' in t else ' '))
        pos = tok[3]
    out.append(real_text[pos:])
    merge.last_dropped = dropped
    merge.last_reanchored = reanchored
    return ''.join(out), conflicts


def generate(unit_path, out_path, spec_root=None):
    """Write the generated file.  Returns a report dict."""
    unit = parse_unit(unit_path)
    gen = []
    report = {'unit': unit['name'], 'props': unit['props'], 'blocks': [], 'conflicts': [], 'changed': [], 'edits': {},
              'lost': []}
    line_block = []  # per generated line: block name or None

    def emit(lines, owner):
        for ln in lines:
            if spec_root and owner is None and '#[path' in ln:
                ln = ln.replace('"../../spec/', '"' + spec_root.rstrip('/') + '/')
            gen.append(ln)
            line_block.append(owner)

    for seg in unit['segments']:
        if seg[0] == 'text':
            emit(seg[1], None)
            continue
        b = seg[1]
        name = '%s::%s' % (b['file'], b['name'])
        text = '\n'.join(b['lines'])
        chunks = split_chunks(text)
        edits = audit_edits(unit, chunks, '%s:%d %s' % (unit_path, b['lineno'], name))
        if b.get('stub') and b.get('proved_in'):
            check_stub_contract(unit_path, b, chunks)
        try:
            real, real_line = real_item_text(b)
            nlog = []
            if 'continue' in real:
                real = unfold_for_continue(real, nlog)
            real = inline_new_helpers(unit, b, real, nlog)
            real = normalise(unit, real, nlog)
        except LostAnchor as e:
            report['lost'].append(str(e))
            emit([b['header']], None)
            emit(['// LOST ANCHOR: %s' % e], name)
            emit([b['footer']], None)
            continue
        if b.get('stub') and not b.get('proved_in'):
            # a TRUSTED stub (no unit proves its contract): the trust is in the reviewed text of the function, so its body is pinned.
            if not b.get('trusted_sha'):
                raise ExtractError('%s: stub %s has neither proved-in= nor trusted-sha256= (run vt.py trusted-hash)' % (unit_path, name))
            if b['trusted_sha'] != b.get('_full_sha'):
                report.setdefault('trusted_changed', []).append({'block': name, 'expected': b['trusted_sha'], 'found': b.get('_full_sha')})
        base = erased_tokens(chunks)
        cur = texts(lex(real))
        info = {'name': name, 'kind': 'stub' if b.get('stub') else b['kind'], 'props': b['props'] or unit['props'], 'repo_line': real_line,
                'sha256': hashlib.sha256(real.encode()).hexdigest()[:16], 'tokens': len(cur), 'changed': False,
                'insertions': sum(1 for e in edits if e['kind'] not in ('replace', 'delete')),
                'replacements': [e for e in edits if e['kind'] in ('replace', 'delete')],
                'unclassified_insertions': [e['text'] for e in edits if e['kind'] == 'unclassified'],
                'normalisations': nlog, 'proved_in': b.get('proved_in')}
        emit([b['header']], None)
        if base == cur:
            body = resolve(chunks)
            emit(body.split('\n'), name)
        else:
            info['changed'] = True
            try:
                text2 = align_match_arms(text, real, nlog)
                if text2 != text and erased_tokens(split_chunks(text2)) is not None:
                    chunks = split_chunks(text2)
            except Exception:
                pass
            body, conflicts = merge(chunks, real)
            body = fix_hoisted_closure_specs(body, nlog)
            try:
                b0_, b1_ = count_unannotated(resolve(chunks)), count_unannotated(body)
                info['unannotated'] = {'base': list(b0_), 'merged': list(b1_)}
            except Exception:
                pass
            for c in conflicts:
                c['block'] = name
            report['conflicts'].extend(conflicts)
            for c in getattr(merge, 'last_dropped', []):
                c['block'] = name
                report.setdefault('dropped_with_code', []).append(c)
            if getattr(merge, 'last_reanchored', None):
                info['annotations_followed_moved_code'] = list(merge.last_reanchored)
            if getattr(merge, 'last_renames', None):
                info['renamed_locals_followed'] = dict(merge.last_renames)
            report['changed'].append(name)
            emit(body.split('\n'), name)
        emit([b['footer']], None)
        report['blocks'].append(info)
    os.makedirs(os.path.dirname(out_path), exist_ok=True)
    with open(out_path, 'w', encoding='utf-8') as f:
        f.write('\n'.join(gen))
    report['line_block'] = line_block
    report['gen_lines'] = gen
    report['out'] = out_path
    return report


_CLAUSE = ('requires', 'ensures', 'invariant', 'decreases', 'recommends')


def ghost_token_indices(ts):
    """Indices of tokens that are certainly ghost text in a hand-annotated item: spec clauses (up to the
    `{` that opens the body), proof blocks, assert statements, ghost lets, broadcast use."""
    from rslex import match_close
    ghost = set()
    k = 0
    n = len(ts)

    def upto_semicolon(j):
        d = 0
        while j < n:
            t = ts[j][1]
            if t in '([{':
                j = match_close(ts, j)
            elif t == ';':
                return j
            j += 1
        return n - 1

    while k < n:
        t = ts[k]
        if t[0] == 'ident' and t[1] in _CLAUSE and not (k > 0 and ts[k - 1][1] == '.'):
            j = k + 1
            while j < n:
                x = ts[j][1]
                if x in '([':
                    j = match_close(ts, j)
                elif x == '{':
                    break
                j += 1
            ghost.update(range(k, j))
            k = j
            continue
        if t[0] == 'ident' and t[1] == 'proof' and k + 1 < n and ts[k + 1][1] == '{':
            e = match_close(ts, k + 1)
            ghost.update(range(k, e + 1))
            k = e + 1
            continue
        if t[0] == 'ident' and t[1] == 'assert' and k + 1 < n and (ts[k + 1][1] == '(' or ts[k + 1][1] == 'forall'):
            j = k + 1
            if ts[j][1] == '(':
                j = match_close(ts, j) + 1
            # optional `by { .. }` / `implies .. by { .. }` then `;`
            while j < n and ts[j][1] != ';':
                if ts[j][1] in '([{':
                    j = match_close(ts, j)
                    if ts[j][1] == '}':
                        j += 1
                        break
                j += 1
            if j < n and ts[j][1] == ';':
                j += 1
            ghost.update(range(k, j))
            k = j
            continue
        if t[0] == 'ident' and t[1] == 'let' and k + 1 < n and ts[k + 1][1] == 'ghost':
            e = upto_semicolon(k)
            ghost.update(range(k, e + 1))
            k = e + 1
            continue
        if t[0] == 'ident' and t[1] == 'broadcast' and k + 1 < n and ts[k + 1][1] == 'use':
            e = upto_semicolon(k)
            ghost.update(range(k, e + 1))
            k = e + 1
            continue
        k += 1
    return ghost


_WAS = re.compile(r'/\*@was ([^*]*)\*/\s*')


def annotate(real_text, plain_annotated):
    """Bootstrap helper: given the real item and a hand-annotated plain Verus version of it, produce
    the marked text (used when a unit is written or edited; the result is what is committed).
    A replacement is written in the plain text as `/*@was OLD*/NEW` where NEW is one token."""
    # 1. take the explicit replacements out: the differ sees OLD in place of NEW
    pieces = []
    pos = 0
    repl = []  # (offset in `flat` where OLD starts, OLD, NEW)
    flat = []
    flen = 0
    for m in _WAS.finditer(plain_annotated):
        seg = plain_annotated[pos:m.start()]
        flat.append(seg)
        flen += len(seg)
        old = m.group(1).strip()
        nt = lex(plain_annotated[m.end():m.end() + 200])[0]
        new = nt[1]
        repl.append((flen, old, new))
        flat.append(old)
        flen += len(old)
        pos = m.end() + nt[3]
    flat.append(plain_annotated[pos:])
    flat = ''.join(flat)
    rt = lex(real_text)
    at = lex(flat)
    atx = texts(at)
    for k in ghost_token_indices(at):
        atx[k] = '\x00ghost%d' % k  # ghost text can never be the image of a real token
    sm = difflib.SequenceMatcher(None, texts(rt), atx, autojunk=False)
    out = []
    pos = 0
    marks = []  # (start, end) of inserted runs in `flat`
    dels = []
    for tag, i1, i2, j1, j2 in sm.get_opcodes():
        if tag == 'equal':
            continue
        if i2 > i1 and j2 == j1:
            # pure deletion (attributes): re-inserted as an old-run at this position
            where = at[j1][2] if j1 < len(at) else len(flat)
            dels.append((where, real_text[rt[i1][2]:rt[i2 - 1][3]]))
            continue
        if i2 > i1:
            raise ExtractError('annotate: real tokens `%s` have no counterpart in the annotated text (use /*@was OLD*/NEW for a replacement)'
                               % ' '.join(texts(rt)[i1:i2]))
        e_ = at[j2 - 1][3]
        eol = flat.find('\n', e_)
        eol = len(flat) if eol < 0 else eol
        if re.fullmatch(r'[ \t]*//[^\n]*', flat[e_:eol] or ''):
            e_ = eol  # keep a trailing label comment `// [Cnn.x] ...` inside the inserted run
        marks.append((at[j1][2], e_))
    # 2. print with markers, re-inserting the replacements
    events = [(s, 'ins_o') for s, e in marks] + [(e, 'ins_c') for s, e in marks]
    for off, old, new in repl:
        events.append((off, ('repl', old, new)))
    for off, old in dels:
        events.append((off, ('del', old)))
    events.sort(key=lambda x: (x[0], 0 if x[1] == 'ins_c' else (2 if x[1] == 'ins_o' else 1)))
    skip_until = -1
    for off, ev in events:
        if off > pos:
            out.append(flat[max(pos, skip_until):off] if skip_until > pos else flat[pos:off])
            pos = off
        if ev == 'ins_o':
            out.append(INS_O)
        elif ev == 'ins_c':
            out.append(INS_C)
        elif ev[0] == 'del':
            out.append(OLD_O + ev[1] + OLD_C)
        else:
            _, old, new = ev
            out.append(OLD_O + old + OLD_C + INS_O + new + INS_C)
            pos = off + len(old)
    out.append(flat[pos:])
    return ''.join(out)


if __name__ == '__main__':
    import sys
    import json
    if sys.argv[1] == 'annotate':
        # annotate <file>::<kind> <name> <plain.rs>
        file, kind, name, plain = sys.argv[2:6]
        real, _ = real_item_text({'file': file, 'kind': kind, 'name': name})
        sys.stdout.write(annotate(real, open(plain, encoding='utf-8').read()))
    else:
        rep = generate(sys.argv[1], sys.argv[2])
        rep.pop('line_block')
        rep.pop('gen_lines')
        print(json.dumps(rep, indent=1))
