#!/bin/bash
# MANIFEST.setup_cmd: build everything the checks need, offline, from files on disk.
set -euo pipefail
HERE="$(cd "$(dirname "$0")" && pwd)"
"$HERE/setup_deps.sh" >/dev/null
echo "setup ok"
