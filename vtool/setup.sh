#!/bin/bash
# MANIFEST.setup_cmd: build everything the checks need, offline, from files on disk.
set -euo pipefail
HERE="$(cd "$(dirname "$0")" && pwd)"
"$HERE/setup_deps.sh" >/dev/null
# prebuild the witness-search tool against /repo's current tree (checks rebuild it incrementally)
cp /repo/Cargo.lock "$HERE/replay/Cargo.lock"
(cd "$HERE/replay" && CARGO_TARGET_DIR="$HERE/../build/replay-target" CARGO_NET_OFFLINE=true cargo build --offline -q 2>/dev/null) || echo "warning: replay tool did not build"
# conformance tests of the stand-ins (quote! muncher, ShaderStages shim, Debug names) against the real crates
python3 "$HERE/conform.py" >/dev/null 2>&1 || echo "warning: shim conformance did not pass (see build/conformance.json)"
echo "setup ok"
