#!/usr/bin/env python3
"""Automatic behaviour-preserving sweep over every function under contract: the false-alarm side of mutsweep.py.

Token-level rewrites of the REAL function text (outside macro arguments) that cannot change behaviour:
  * `if C { A } else { B }`  ->  `if !(C) { B } else { A }`        (plain `if`, not `if let`, not an `else if` link)
  * `if C {`                 ->  `if (C) {`
  * an expression statement `f(..);` / `x.m(..);`  ->  `{ f(..); }`
  * `a == b`  ->  `b == a`  for two plain paths / identifiers        (derived PartialEq is symmetric)
  * `match` arm body `=> EXPR,` (not a block)  ->  `=> { EXPR }`
  * a `let x = EXPR;`  ->  `let x = { EXPR };`
Each variant is applied to a scratch copy of the sources; `cargo check` must accept it (variants rustc rejects are dropped,
e.g. a borrow that no longer lives long enough), then the deductive part alone (`check.py <P> --src .. --only-unit U`)
runs for every property of the function.  A VIOLATION is a FALSE ALARM of the machinery; UNDECIDED is tolerated and counted.

  benignsweep.py [--jobs N] [--limit N] [--fn NAME] [--seed S] [--out FILE]
"""
import concurrent.futures as cf
import json, os, random, re, shutil, subprocess, sys, tempfile
HERE = os.path.dirname(os.path.abspath(__file__))
ROOT = os.path.dirname(HERE)
sys.path.insert(0, HERE)
from rslex import lex, match_close, find_item, is_macro_open  # noqa: E402
from mutsweep import functions  # noqa: E402
SRC = os.environ.get('VERIF_REPO_SRC', '/repo/wgsl_to_wgpu/src')
KW = ('let', 'if', 'for', 'while', 'loop', 'match', 'return', 'use', 'fn', 'break', 'continue', 'else', 'unsafe', 'move')


def variants_of(src, span):
    s0, e0 = span
    ts = [t for t in lex(src) if s0 <= t[2] < e0]
    skip = set()
    k = 0
    while k < len(ts):
        if ts[k][0] == 'punct' and ts[k][1] in '([{' and is_macro_open(ts, k):
            e = match_close(ts, k)
            skip.update(range(k, e + 1))
            k = e + 1
            continue
        k += 1
    body_start = next((i for i, t in enumerate(ts) if t[1] == '{' and i not in skip), 0)
    for i, t in enumerate(ts):
        if i in skip or i <= body_start:
            continue
        x = t[1]
        pv = ts[i - 1][1]
        # plain if / if-else
        if x == 'if' and t[0] == 'ident' and pv != 'else' and ts[i + 1][1] != 'let':
            j = i + 1
            while j < len(ts) and ts[j][1] != '{':
                j = match_close(ts, j) + 1 if ts[j][1] in '([' else j + 1
            if j >= len(ts) or any(ts[q][1] == 'let' for q in range(i, j)):
                continue
            cond = src[ts[i + 1][2]:ts[j - 1][3]]
            yield ('paren-cond', [(ts[i + 1][2], ts[j - 1][3], '(' + cond + ')')])
            e = match_close(ts, j)
            if e + 2 < len(ts) and ts[e + 1][1] == 'else' and ts[e + 2][1] == '{':
                e2 = match_close(ts, e + 2)
                a, b = src[ts[j][2]:ts[e][3]], src[ts[e + 2][2]:ts[e2][3]]
                yield ('negate-swap-branches', [(ts[i + 1][2], ts[j - 1][3], '!(' + cond + ')'), (ts[j][2], ts[e][3], b), (ts[e + 2][2], ts[e2][3], a)])
        # expression statement -> block
        if pv in ('{', ';', '}') and t[0] == 'ident' and x not in KW and i not in skip:
            j = i
            ok = False
            while j < len(ts):
                if ts[j][1] in '([{':
                    j = match_close(ts, j)
                elif ts[j][1] == ';':
                    ok = True
                    break
                elif ts[j][1] in ('}', '=>') or (ts[j][1] == '=' and ts[j + 1][1] != '=' and ts[j - 1][1] not in '=!<>+-|&*'):
                    break
                j += 1
            if ok and any(ts[q][1] == '(' for q in range(i, j)):
                yield ('stmt-in-block', [(t[2], ts[j][3], '{ ' + src[t[2]:ts[j][3]] + ' }')])
                yield ('let-underscore', [(t[2], t[2], 'let _ = ')])
        # a == b -> b == a  (simple operands)
        if x == '=' and ts[i + 1][1] == '=' and ts[i + 1][2] == t[3] and pv not in '=!<>' and i + 2 < len(ts):
            # left operand: maximal run of ident / `.` / `::` / `*` tokens ending at i-1; right operand likewise starting at i+2
            a = i - 1
            while a - 1 > body_start and (ts[a - 1][1] in ('.', ':') or (ts[a - 1][0] == 'ident' and ts[a][1] in ('.', ':')) or (ts[a - 1][1] == ':' and ts[a][1] == ':')):
                a -= 1
            b = i + 2
            while b + 1 < len(ts) and (ts[b + 1][1] in ('.', ':') or (ts[b + 1][0] == 'ident' and ts[b][1] in ('.', ':'))):
                b += 1
            lo, ro = src[ts[a][2]:ts[i - 1][3]], src[ts[i + 2][2]:ts[b][3]]
            if re.fullmatch(r'[\w:.]+', lo) and re.fullmatch(r'[\w:.]+', ro) and ts[a - 1][1] in ('(', '{', ',', ';', '&', '|', 'if', '=', 'return') and ts[b + 1][1] in (')', '{', ',', ';', '&', '|', '}'):
                yield ('swap-eq-operands', [(ts[a][2], ts[b][3], ro + ' == ' + lo)])
        # commutative operations on simple operands: X.union(Y) / X.max(Y) / X.min(Y) -> Y.op(X);  a + b -> b + a
        if x in ('union', 'max', 'min') and pv == '.' and ts[i + 1][1] == '(':
            e = match_close(ts, i + 1)
            arg = src[ts[i + 2][2]:ts[e - 1][3]] if e > i + 2 else ''
            a = i - 2
            while a - 1 > body_start and (ts[a - 1][1] in ('.', ':', '*') or (ts[a - 1][0] == 'ident' and ts[a][1] in ('.', ':'))):
                a -= 1
            recv = src[ts[a][2]:ts[i - 2][3]]
            if re.fullmatch(r'\*?[\w:.]+', recv) and re.fullmatch(r'\*?[\w:.]+(\([\w:., &*]*\))?', arg) and ts[a - 1][1] in ('(', '{', ',', ';', '=', 'return'):
                r2 = recv if not recv.startswith('*') else '(' + recv + ')'
                a2_ = arg if not arg.startswith('*') else '(' + arg + ')'
                yield ('commute-' + x, [(ts[a][2], ts[e][3], a2_ + '.' + x + '(' + recv + ')')])
        if x == '+' and ts[i + 1][1] != '=' and pv not in ('(', ',', '=') and ts[i - 1][0] in ('ident', 'num') and ts[i + 1][0] in ('ident', 'num') \
                and ts[i - 2][1] in ('(', '{', ',', ';', '=', 'return', '&&', '<', '>') and ts[i + 2][1] in (')', '}', ',', ';'):
            yield ('commute-plus', [(ts[i - 1][2], ts[i + 1][3], ts[i + 1][1] + ' + ' + ts[i - 1][1])])
        # match arm `=> EXPR,` -> `=> { EXPR },`
        if x == '=' and ts[i + 1][1] == '>' and ts[i + 1][2] == t[3] and ts[i + 2][1] != '{':
            j = i + 2
            while j < len(ts) and ts[j][1] not in (',', '}'):
                j = match_close(ts, j) + 1 if ts[j][1] in '([{' else j + 1
            if j < len(ts) and ts[j][1] == ',' and j > i + 2:
                yield ('arm-body-in-block', [(ts[i + 2][2], ts[j - 1][3], '{ ' + src[ts[i + 2][2]:ts[j - 1][3]] + ' }')])
        # let x = EXPR; -> let x = { EXPR };
        if x == 'let' and t[0] == 'ident' and pv in ('{', ';', '}'):
            j = i + 1
            eq = None
            while j < len(ts) and ts[j][1] != ';':
                if ts[j][1] in '([{':
                    j = match_close(ts, j)
                elif ts[j][1] == '=' and ts[j + 1][1] != '=' and ts[j - 1][1] not in '=!<>' and eq is None:
                    eq = j
                elif ts[j][1] == 'else':
                    eq = None
                    break
                j += 1
            if eq is not None and j < len(ts) and j > eq + 1 and not any(q in skip for q in range(eq, j)) is False or (eq is not None and j < len(ts) and j > eq + 1):
                yield ('let-init-in-block', [(ts[eq + 1][2], ts[j - 1][3], '{ ' + src[ts[eq + 1][2]:ts[j - 1][3]] + ' }')])


def apply(src, edits):
    out, pos = [], 0
    for a, b, r in sorted(edits):
        if a < pos:
            return None
        out.append(src[pos:a]); out.append(r); pos = b
    out.append(src[pos:])
    return ''.join(out)


_crate = {}


def cargo_ok(srcdir, work):
    """rustc must accept the variant: a scratch copy of the crate with its src replaced, cargo check --offline (shared target dir per worker)."""
    crate = os.path.join(work, 'crate')
    if not os.path.exists(crate):
        shutil.copytree('/repo/wgsl_to_wgpu', os.path.join(crate, 'wgsl_to_wgpu'), ignore=shutil.ignore_patterns('target'))
        shutil.copy('/repo/Cargo.toml', crate)
        shutil.copy('/repo/Cargo.lock', crate)
        for extra in ('wgsl_to_wgpu_macro', 'example'):
            if os.path.isdir(os.path.join('/repo', extra)):
                shutil.copytree(os.path.join('/repo', extra), os.path.join(crate, extra), ignore=shutil.ignore_patterns('target'))
    dst = os.path.join(crate, 'wgsl_to_wgpu', 'src')
    shutil.rmtree(dst)
    shutil.copytree(srcdir, dst)
    r = subprocess.run(['cargo', 'check', '-p', 'wgsl_to_wgpu', '--offline', '-q'], cwd=crate, capture_output=True, text=True,
                       env=dict(os.environ, CARGO_TARGET_DIR=os.path.join(work, 'target'), CARGO_NET_OFFLINE='true'))
    return r.returncode == 0


def one(job):
    k, (file, fn, unit, props, kind, edits), work = job
    d = tempfile.mkdtemp(prefix='verif-bsw-')
    try:
        shutil.copytree(SRC, os.path.join(d, 'src'))
        p = os.path.join(d, 'src', file)
        s = open(p, encoding='utf-8').read()
        s2 = apply(s, edits)
        if s2 is None or s2 == s:
            return None
        open(p, 'w', encoding='utf-8').write(s2)
        if not cargo_ok(os.path.join(d, 'src'), work):
            return {'fn': fn, 'file': file, 'kind': kind, 'verdict': 'rustc-rejects'}
        verdicts = {}
        for prop in props:
            r = subprocess.run([sys.executable, os.path.join(HERE, 'check.py'), prop, '--src', os.path.join(d, 'src'), '--only-unit', unit, '--tag', 'bsw%d' % k],
                               cwd=ROOT, capture_output=True, text=True)
            last = [l for l in r.stdout.strip().split('\n') if l.startswith('{')]
            info = json.loads(last[-1]) if last else {}
            verdicts[prop] = {0: 'held', 1: 'FALSE-ALARM: ' + ', '.join(v['label'] for v in info.get('violations', []))[:120],
                              2: 'undecided: ' + '; '.join(u['reason'] for u in info.get('undecided', []))[:80]}.get(r.returncode, 'exit %d' % r.returncode)
            shutil.rmtree(os.path.join(ROOT, 'build', 'gen', '%s-bsw%d' % (prop, k)), ignore_errors=True)
        line = src_line(s, edits)
        return {'fn': fn, 'file': file, 'unit': unit, 'kind': kind, 'line': line, 'text': s2[sorted(edits)[0][0]:sorted(edits)[0][0] + 90].replace('\n', ' '), 'verdicts': verdicts}
    finally:
        shutil.rmtree(d, ignore_errors=True)


def src_line(s, edits):
    return s.count('\n', 0, sorted(edits)[0][0]) + 1


def run(prop, limit=12, seed=1, jobs=4):
    """Thorough tier: a sample of behaviour-preserving variants of the functions that serve `prop`, deductive part alone.
    Informational: a false alarm found here is a defect of the machinery (reported as such), never a violation of /repo."""
    cands = []
    seen = set()
    for file, fn, unit, props in functions():
        if prop not in props:
            continue
        src = open(os.path.join(SRC, file), encoding='utf-8').read()
        try:
            span = find_item(src, 'fn', fn)
        except ValueError:
            continue
        for kind, edits in variants_of(src, span):
            key = (file, fn, unit, kind, tuple(edits))
            if key not in seen:
                seen.add(key)
                cands.append((file, fn, unit, [prop], kind, edits))
    random.Random(seed).shuffle(cands)
    total = len(cands)
    cands = cands[:limit]
    works = [tempfile.mkdtemp(prefix='verif-bsw-work-') for _ in range(jobs)]
    res = []
    try:
        with cf.ThreadPoolExecutor(max_workers=jobs) as ex:
            for r in ex.map(one, [(1000 + k, c, works[k % jobs]) for k, c in enumerate(cands)]):
                if r:
                    res.append(r)
    finally:
        for w in works:
            shutil.rmtree(w, ignore_errors=True)
    vs = [v for r in res for v in (r.get('verdicts') or {}).values()]
    return {'level': 'behaviour-preserving token rewrites (if/else swapped under negation, parenthesised conditions, statements / arm bodies / initialisers wrapped in blocks, == operands swapped), accepted by cargo check, deductive part alone: a violation here would be a false alarm of the machinery',
            'variants_available': total, 'sampled': len(res), 'rustc_rejects': sum(1 for r in res if r.get('verdict') == 'rustc-rejects'),
            'held': sum(1 for v in vs if v == 'held'), 'undecided': sum(1 for v in vs if v.startswith('undecided')),
            'false_alarms': [{'fn': r['fn'], 'kind': r['kind'], 'line': r['line'], 'verdicts': r['verdicts']} for r in res if any(v.startswith('FALSE-ALARM') for v in (r.get('verdicts') or {}).values())]}


def main():
    args = sys.argv[1:]
    def opt(name, default):
        if name in args:
            i = args.index(name); v = args[i + 1]; del args[i:i + 2]; return v
        return default
    jobs = int(opt('--jobs', '6')); limit = int(opt('--limit', '0')); only = opt('--fn', None); seed = int(opt('--seed', '1'))
    kinds = opt('--kinds', None)
    out_path = opt('--out', os.path.join(ROOT, 'benign', 'SWEEP.json'))
    cands = []
    seen = set()
    for file, fn, unit, props in functions():
        if only and fn != only:
            continue
        src = open(os.path.join(SRC, file), encoding='utf-8').read()
        try:
            span = find_item(src, 'fn', fn)
        except ValueError:
            continue
        for kind, edits in variants_of(src, span):
            key = (file, fn, unit, kind, tuple(edits))
            if key in seen:
                continue
            seen.add(key)
            cands.append((file, fn, unit, props, kind, edits))
    if kinds:
        cands = [c for c in cands if any(c[4].startswith(k) for k in kinds.split(','))]
    random.Random(seed).shuffle(cands)
    if limit:
        cands = cands[:limit]
    works = [tempfile.mkdtemp(prefix='verif-bsw-work-') for _ in range(jobs)]
    res = []
    try:
        with cf.ThreadPoolExecutor(max_workers=jobs) as ex:
            futs = [ex.submit(one, (k, c, works[k % jobs])) for k, c in enumerate(cands)]
            for f in futs:
                r = f.result()
                if r:
                    res.append(r)
                    print(r['fn'], r['kind'], r.get('verdicts') or r['verdict'], flush=True)
    finally:
        for w in works:
            shutil.rmtree(w, ignore_errors=True)
    fa = [r for r in res if any(v.startswith('FALSE-ALARM') for v in (r.get('verdicts') or {}).values())]
    summary = {'variants': len(res), 'rustc_rejects': sum(1 for r in res if r.get('verdict') == 'rustc-rejects'),
               'held': sum(1 for r in res for v in (r.get('verdicts') or {}).values() if v == 'held'),
               'undecided': sum(1 for r in res for v in (r.get('verdicts') or {}).values() if v.startswith('undecided')),
               'false_alarms': len(fa)}
    json.dump({'summary': summary, 'false_alarms': fa, 'results': res}, open(out_path, 'w'), indent=1)
    print('summary:', summary)
    for r in fa:
        print('FALSE ALARM', r['file'], r['fn'], r['kind'], 'line', r['line'], r['verdicts'], '|', r['text'])


if __name__ == '__main__':
    main()
